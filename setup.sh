#!/bin/bash
# Run once after a fresh restore, offline: prepares the harness crates' lock
# files and warms the per-worker Kani target directories so that the quick
# checks do not each pay the ~35 s dependency build.
set -u
export CARGO_NET_OFFLINE=true
cd /verif
mkdir -p work/logs evidence replays
python3 lib/gen.py /verif/kani > /dev/null || exit 1
[ -f kani/Cargo.lock ] || cp /repo/Cargo.lock kani/Cargo.lock
if [ -d replay ]; then
  python3 lib/gen.py /verif/replay > /dev/null || exit 1
  [ -f replay/Cargo.lock ] || cp /repo/Cargo.lock replay/Cargo.lock
  (cd replay && cargo test --offline --no-run > /verif/work/logs/setup_replay.log 2>&1) &
fi
N=${VERIF_JOBS:-8}
for i in $(seq 0 $((N-1))); do
  # one small harness is enough to build the dependency crates into this worker's target directory
  (cd kani && cargo kani -Z stubbing -Z unstable-options --only-codegen --harness directory::verif_init::init_any_partial_directory --exact --target-dir /verif/work/kt_$i > /verif/work/logs/setup_kt_$i.log 2>&1) &
done
wait
echo "setup done"
