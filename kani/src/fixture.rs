//! Installs a decoded pre-state (shared/prestate.rs) into the global
//! SymSystem and builds the ruler-side values (Blob with table entries,
//! RuleHistory) that go with it.

use crate::symsys::*;
use crate::prestate::{self, PreD, Raw, Clock, NRAW};
use crate::blob::{Blob, FileState, FileInfo, FileStateVec};
use crate::history::RuleHistory;
use crate::ticket::Ticket;
use crate::ticket::verif::*;

pub fn any_raw() -> Raw
{
    Raw { bytes : kani::any(), pos : 0 }
}

pub fn table_file_state(t : &prestate::TableD) -> FileState
{
    if t.known
    {
        FileState
        {
            ticket : ticket_of_content(t.content),
            timestamp : 1_000_000u64 * (t.mtime as u64),
            executable : t.exec,
        }
    }
    else
    {
        FileState::empty()
    }
}

/*  The sources hash the rule thread computed (any fixed non-content digest). */
pub fn sources_ticket() -> Ticket
{
    ticket_foreign(1)
}

pub fn install(pre : &PreD)
{
    let f = fs();
    crate::unroll3!(i, {
        f.ws[i] = Slot { present : pre.ws[i].present, content : pre.ws[i].content, mtime : pre.ws[i].mtime,
                exec : pre.ws[i].exec, inode : 10 + i as u8 };
        f.in_scope[i] = i < pre.ntargets;
    });
    f.ws[3] = ABSENT;
    f.in_scope[3] = false;
    crate::unroll5!(k, {
        f.cache[k] = Slot { present : pre.cache[k].present, content : k as u8, mtime : pre.cache[k].mtime,
                exec : pre.cache[k].exec, inode : 20 + k as u8 };
    });
    f.cache[FOREIGN] = ABSENT;
    f.cache_dir = true;
    f.cmd.ntargets = pre.ntargets;
    f.cmd.target_slot = [0, 1];
    f.cmd.out = pre.out;
    f.cmd.exec_out = pre.exec_out;
    f.cmd.omit = [false, false];
    f.cmd.fail_code = false;
    f.cmd.first_line_fails = false;
    f.cmd.spawn_error = false;
    f.cmd.fresh_mtime = [pre.fresh, pre.fresh2];
    f.snapshot_initial();
}

pub fn blob_of(pre : &PreD) -> Blob
{
    let mut paths = Vec::with_capacity(pre.ntargets);
    let mut i = 0;
    while i < pre.ntargets
    {
        paths.push(String::from(WS_PATHS[i]));
        i += 1;
    }
    let table = pre.table;
    let mut n = 0usize;
    Blob::from_paths(paths, |_p|
    {
        let st = table_file_state(&table[n]);
        n += 1;
        st
    })
}

/*  Same paths, but what take_blob hands out after the table file was erased. */
pub fn blob_without_table(pre : &PreD) -> Blob
{
    let mut paths = Vec::with_capacity(pre.ntargets);
    let mut i = 0;
    while i < pre.ntargets
    {
        paths.push(String::from(WS_PATHS[i]));
        i += 1;
    }
    Blob::from_paths(paths, |_p| FileState::empty())
}

pub fn file_info_of(pre : &PreD, i : usize) -> FileInfo
{
    FileInfo { path : String::from(WS_PATHS[i]), file_state : table_file_state(&pre.table[i]) }
}

pub fn remembered_vec(pre : &PreD) -> FileStateVec
{
    let mut v = Vec::with_capacity(pre.ntargets);
    let mut i = 0;
    while i < pre.ntargets
    {
        v.push(ticket_of_content(pre.remembered[i]));
        i += 1;
    }
    FileStateVec::from_ticket_vec(v)
}

/*  Rule history as persisted: an unrelated entry (another sources hash) is
    always there; the entry for the current sources hash iff has_history. */
pub fn history_of(pre : &PreD) -> RuleHistory
{
    let mut other = Vec::with_capacity(pre.ntargets);
    let mut i = 0;
    while i < pre.ntargets
    {
        other.push(ticket_of_content(0));
        i += 1;
    }
    /*  Always two entries, so that the map's length is concrete on every path (a container of
        symbolic length costs CBMC far more than a symbolic key): the second entry is filed under
        the current sources hash iff has_history, else under a second unrelated hash. */
    let mut entries = Vec::with_capacity(2);
    entries.push((ticket_foreign(2), FileStateVec::from_ticket_vec(other)));
    let key = if pre.has_history { sources_ticket() } else { ticket_foreign(3) };
    entries.push((key, remembered_vec(pre)));
    crate::history::verif::history_from_entries(entries)
}
