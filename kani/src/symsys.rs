//! SymSystem: an array-backed, heap-free `System` whose whole state is a global
//! that a harness fills with `kani::any()` values (constrained by the
//! invariants of DESIGN §2).  Every mutating call goes through one place,
//! where the per-operation monitors of C07/C08/C09, the crash index of C11 and
//! the interference steps of C06 are applied.
//!
//! Universe: NCONTENT file contents (ids 0..NCONTENT-1, the file's bytes are
//! the single byte [id]) plus the empty file (id EMPTY).  Under the ideal hash
//! H([id]) = [1,id,0..] and H([]) = [0,..]; `Ticket::human_readable` is stubbed
//! to the injective map digest -> one character '0'+slot, and `format!` (only
//! reached through "{}/{}" path building in cache.rs) to "#"+that character,
//! so the cache entry of content id k is the path "#<k>" = cache slot k.
//!
//! Paths:  "a","b","c","d"   workspace slots 0..3 (which of them are targets
//!                           of the rule under test is the harness's choice)
//!         "#"               the cache directory
//!         "#0".."#5"        cache slots: 0..3 contents, 4 = empty file,
//!                           5 = FOREIGN (a name no content of the universe
//!                           hashes to; must never come into existence)
//!         anything else     does not exist / cannot be created (logged)

use crate::system::{System, SystemError, CommandScript, CommandLineOutput};
use std::io;
use std::time::{SystemTime, Duration};

pub const NWS : usize = 4;
pub use crate::prestate::{NCONTENT, EMPTY};
pub const FOREIGN : usize = 5;  // cache slot for digests outside the universe
pub const NCACHE : usize = 6;

#[derive(Clone, Copy, PartialEq, Eq)]
pub struct Slot
{
    pub present : bool,
    pub content : u8,
    pub mtime : u8,     // whole seconds since the epoch
    pub exec : bool,
    pub inode : u8,     // identity of the file object (follows renames)
}

pub const ABSENT : Slot = Slot { present : false, content : 0, mtime : 0, exec : false, inode : 0 };

#[derive(Clone, Copy, PartialEq, Eq)]
pub enum Loc
{
    Ws(usize),
    Cache(usize),
    CacheDir,
    Other,
}

pub fn classify(path : &str) -> Loc
{
    let b = path.as_bytes();
    if b.len() == 1
    {
        let c = b[0];
        if c == b'#'
        {
            return Loc::CacheDir;
        }
        if c >= b'a' && (c - b'a') < NWS as u8
        {
            return Loc::Ws((c - b'a') as usize);
        }
        return Loc::Other;
    }
    if b.len() == 2 && b[0] == b'#'
    {
        let c = b[1];
        if c >= b'0' && ((c - b'0') as usize) < NCACHE
        {
            return Loc::Cache((c - b'0') as usize);
        }
    }
    Loc::Other
}

/*  Side channel for the `get_timestamp` stub: SymSystem::get_modified hands out
    the epoch and records the whole-second mtime here; the stub turns it into
    ruler's microsecond timestamp.  (std's SystemTime arithmetic costs CBMC an
    8-deep recursion of 64-bit divisions per call; the real get_timestamp is
    checked on its own in harness/system_util.rs.) */
pub static mut LAST_MTIME : u8 = 0;
pub static mut READ_POS : usize = 0;

pub fn get_timestamp_stub(_t : SystemTime) -> Result<u64, std::time::SystemTimeError>
{
    Ok(1_000_000u64 * (unsafe { LAST_MTIME } as u64))
}

pub const WS_PATHS : [&str; NWS] = ["a", "b", "c", "d"];

/*  What the command model writes: target i <- content out[i] (or nothing). */
#[derive(Clone, Copy)]
pub struct CommandModel
{
    pub ntargets : usize,
    pub target_slot : [usize; 2],   // workspace slot of target i
    pub out : [u8; 2],              // content it writes to target i
    pub omit : [bool; 2],           // "does not produce declared target i"
    pub fail_code : bool,           // exits non-zero (and, per C08's assumption, writes nothing)
    pub first_line_fails : bool,    // two script lines: the first exits non-zero, the second succeeds and writes the targets
    pub spawn_error : bool,         // the shell could not be started
    pub fresh_mtime : [u8; 2],      // mtime of its write to target i (distinct writes carry distinct mtimes)
    pub exec_out : [bool; 2],
}

pub struct Fs
{
    pub ws : [Slot; NWS],
    pub cache : [Slot; NCACHE],
    pub cache_dir : bool,
    pub cmd : CommandModel,

    /*  Which workspace slots ruler may touch in this harness (targets of the
        rule under test).  C09 monitor. */
    pub in_scope : [bool; NWS],

    /*  Logs / monitors.  A monitor flag set to true means "violated". */
    pub n_mutations : u32,
    pub n_renames : u32,
    pub n_exec : u32,
    pub n_creates : u32,
    pub n_chmods : u32,
    pub ws_touched : [bool; NWS],         // some mutating call named this workspace path
    pub restored_into : [bool; NWS],      // a rename from the cache landed here
    pub m_c07_cache_misfiled : bool,      // after some mutation a cache slot k held content != k
    pub m_c08_overwrite : bool,           // a rename/create replaced a file holding different content
    pub m_c08_lost : bool,                // some content present before is nowhere (targets+cache) after a mutation
    pub m_c09_out_of_scope : bool,        // a mutating call named a path that is neither an in-scope target nor in the cache
    pub m_other_path_mutation : bool,     // a mutating call named an unknown path
    pub m_created_by_ruler : bool,        // ruler called create_file/set_is_executable (never expected with downloads off)

    /*  C11: crash index.  Mutation number `crash_at` (0-based) and every later
        one are refused: the disk is frozen at that prefix. */
    pub crash_at : u32,
    pub crashed : bool,

    /*  C06: interference budget.  Before each call that looks at or changes the
        cache directory the environment may perform one guarantee-respecting
        step chosen by the solver. */
    pub interf_budget : u8,
    pub n_interf : u32,

    /*  snapshot of the content multiset at harness start, for C08/I4 */
    pub initial_present : [bool; 6],      // by content id 0..3, 4 = EMPTY; index 5 unused
    pub sources_at_exec_ok : bool,
}

pub static mut FS : Fs = Fs
{
    ws : [ABSENT; NWS],
    cache : [ABSENT; NCACHE],
    cache_dir : true,
    cmd : CommandModel { ntargets : 0, target_slot : [0, 1], out : [0, 0], omit : [false, false],
        fail_code : false, first_line_fails : false, spawn_error : false, fresh_mtime : [0, 0], exec_out : [false, false] },
    in_scope : [false; NWS],
    n_mutations : 0, n_renames : 0, n_exec : 0, n_creates : 0, n_chmods : 0,
    ws_touched : [false; NWS],
    restored_into : [false; NWS],
    m_c07_cache_misfiled : false,
    m_c08_overwrite : false,
    m_c08_lost : false,
    m_c09_out_of_scope : false,
    m_other_path_mutation : false,
    m_created_by_ruler : false,
    crash_at : u32::MAX,
    crashed : false,
    interf_budget : 0,
    n_interf : 0,
    initial_present : [false; 6],
    sources_at_exec_ok : true,
};

pub fn fs() -> &'static mut Fs
{
    unsafe { &mut FS }
}

impl Fs
{
    pub fn slot(&self, loc : Loc) -> Option<Slot>
    {
        match loc
        {
            Loc::Ws(i) => Some(self.ws[i]),
            Loc::Cache(i) => Some(self.cache[i]),
            _ => None,
        }
    }

    pub fn set_slot(&mut self, loc : Loc, s : Slot)
    {
        match loc
        {
            Loc::Ws(i) => self.ws[i] = s,
            Loc::Cache(i) => self.cache[i] = s,
            _ => {},
        }
    }

    /*  I1: every present cache slot k holds content k; the FOREIGN slot is empty. */
    pub fn cache_content_addressed(&self) -> bool
    {
        let mut ok = true;
        crate::unroll6!(k, {
            if self.cache[k].present
            {
                if k == FOREIGN || self.cache[k].content != k as u8
                {
                    ok = false;
                }
            }
        });
        ok
    }

    pub fn content_present(&self, c : u8) -> bool
    {
        let mut found = false;
        crate::unroll4!(i, {
            if self.ws[i].present && self.ws[i].content == c
            {
                found = true;
            }
        });
        crate::unroll6!(k, {
            if self.cache[k].present && self.cache[k].content == c
            {
                found = true;
            }
        });
        found
    }

    /*  Record which contents exist at harness start (I4 reference). */
    pub fn snapshot_initial(&mut self)
    {
        crate::unroll5!(c, {
            self.initial_present[c] = self.content_present(c as u8);
        });
    }

    /*  I4: nothing that existed at the start has vanished. */
    pub fn nothing_lost(&self) -> bool
    {
        let mut ok = true;
        crate::unroll5!(c, {
            if self.initial_present[c] && !self.content_present(c as u8)
            {
                ok = false;
            }
        });
        ok
    }

    fn after_mutation(&mut self)
    {
        if !self.cache_content_addressed()
        {
            self.m_c07_cache_misfiled = true;
        }
        if !self.nothing_lost()
        {
            self.m_c08_lost = true;
        }
    }

    /*  Called at the head of every mutating call.  Returns false when the
        process is (modelled as) dead: the call must have no effect. */
    fn admit_mutation(&mut self) -> bool
    {
        if self.crashed
        {
            return false;
        }
        if self.n_mutations >= self.crash_at
        {
            self.crashed = true;
            return false;
        }
        self.n_mutations += 1;
        true
    }

    fn note_path(&mut self, loc : Loc)
    {
        match loc
        {
            Loc::Ws(i) =>
            {
                self.ws_touched[i] = true;
                if !self.in_scope[i]
                {
                    self.m_c09_out_of_scope = true;
                }
            },
            Loc::Cache(_) => {},
            Loc::CacheDir => { self.m_c09_out_of_scope = true; },
            Loc::Other => { self.m_other_path_mutation = true; self.m_c09_out_of_scope = true; },
        }
    }

    /*  C06: one environment step drawn from the guarantee set
            G = { a peer backs up a file with content c: cache[c] appears (or is replaced by an equal file),
                  a peer restores content c:             cache[c] disappears }
        Both preserve I1.  The solver picks whether, which, and on which slot. */
    pub fn maybe_interfere(&mut self)
    {
        if self.interf_budget == 0 || self.crashed
        {
            return;
        }
        let go : bool = kani::any();
        if !go
        {
            return;
        }
        let k : usize = kani::any();
        kani::assume(k <= EMPTY as usize);
        let add : bool = kani::any();
        self.interf_budget -= 1;
        self.n_interf += 1;
        if add
        {
            let m : u8 = kani::any();
            kani::assume(m < 8);
            let e : bool = kani::any();
            let ino : u8 = kani::any();
            kani::assume(ino >= 100);
            self.cache[k] = Slot { present : true, content : k as u8, mtime : m, exec : e, inode : ino };
        }
        else
        {
            /*  A peer took the entry out.  The content is not lost to the
                system (it now sits at the peer's target path), so it stays
                accounted for in I4 by clearing the initial_present bit. */
            if self.cache[k].present
            {
                self.cache[k].present = false;
                self.initial_present[k] = self.content_present(k as u8);
            }
        }
    }
}

#[derive(Clone)]
pub struct SymSystem {}

#[derive(Debug)]
pub struct SymFile
{
    pub content : u8,
    pub pos : usize,
}

impl io::Read for SymFile
{
    fn read(&mut self, buf : &mut [u8]) -> io::Result<usize>
    {
        /*  `pos` is kept concrete on every path so that CBMC's constant
            propagation ends the caller's read loop after two iterations. */
        unsafe
        {
            if READ_POS >= 1
            {
                return Ok(0);
            }
            READ_POS = 1;
        }
        if self.content == EMPTY || buf.len() == 0
        {
            return Ok(0);
        }
        buf[0] = self.content;
        Ok(1)
    }
}

impl io::Write for SymFile
{
    fn write(&mut self, buf : &[u8]) -> io::Result<usize>
    {
        Ok(buf.len())
    }

    fn flush(&mut self) -> io::Result<()>
    {
        Ok(())
    }
}

impl System for SymSystem
{
    type File = SymFile;

    fn open(&self, path : &str) -> Result<Self::File, SystemError>
    {
        let loc = classify(path);
        /*  The read position lives in a global that is reset unconditionally
            here: a field of the returned SymFile would be merged with the Err
            variant's bytes and stop being a constant for CBMC.  One file is
            open at a time in every harness that reads through SymSystem. */
        unsafe { READ_POS = 0; }
        if let Loc::Cache(_) = loc { fs().maybe_interfere(); }
        match fs().slot(loc)
        {
            Some(s) if s.present => Ok(SymFile { content : s.content, pos : 0 }),
            _ => Err(SystemError::NotFound),
        }
    }

    fn create_file(&mut self, path : &str) -> Result<Self::File, SystemError>
    {
        let f = fs();
        let loc = classify(path);
        if !f.admit_mutation()
        {
            return Err(SystemError::Weird);
        }
        f.n_creates += 1;
        f.m_created_by_ruler = true;
        f.note_path(loc);
        match f.slot(loc)
        {
            Some(s) =>
            {
                if s.present && s.content != EMPTY
                {
                    f.m_c08_overwrite = true;
                }
                f.set_slot(loc, Slot { present : true, content : EMPTY, mtime : f.cmd.fresh_mtime[0], exec : false, inode : 200 });
                f.after_mutation();
                Ok(SymFile { content : EMPTY, pos : 0 })
            },
            None => Err(SystemError::NotFound),
        }
    }

    fn create_dir(&mut self, path : &str) -> Result<(), SystemError>
    {
        let f = fs();
        if !f.admit_mutation()
        {
            return Err(SystemError::Weird);
        }
        match classify(path)
        {
            Loc::CacheDir => { f.cache_dir = true; Ok(()) },
            other => { f.note_path(other); Err(SystemError::NotFound) },
        }
    }

    fn is_dir(&self, path : &str) -> bool
    {
        match classify(path)
        {
            Loc::CacheDir => fs().cache_dir,
            _ => false,
        }
    }

    fn is_file(&self, path : &str) -> bool
    {
        let loc = classify(path);
        if let Loc::Cache(_) = loc { fs().maybe_interfere(); }
        match fs().slot(loc)
        {
            Some(s) => s.present,
            None => false,
        }
    }

    fn list_dir(&self, _path : &str) -> Result<Vec<String>, SystemError>
    {
        Err(SystemError::NotImplemented)
    }

    fn rename(&mut self, from : &str, to : &str) -> Result<(), SystemError>
    {
        let f = fs();
        let lf = classify(from);
        let lt = classify(to);
        match lf { Loc::Cache(_) => f.maybe_interfere(), _ => {} }
        match lt { Loc::Cache(_) => f.maybe_interfere(), _ => {} }
        if !f.admit_mutation()
        {
            return Err(SystemError::Weird);
        }
        f.n_renames += 1;
        f.note_path(lf);
        f.note_path(lt);
        let sf = match f.slot(lf)
        {
            Some(s) if s.present => s,
            _ => return Err(SystemError::RenameFromNonExistent),
        };
        match lt
        {
            Loc::Cache(_) => if !f.cache_dir { return Err(SystemError::RenameToNonExistent); },
            Loc::Ws(_) => {},
            _ => return Err(SystemError::RenameToNonExistent),
        }
        match f.slot(lt)
        {
            Some(st) =>
            {
                if st.present && st.content != sf.content
                {
                    f.m_c08_overwrite = true;
                }
            },
            None => {},
        }
        f.set_slot(lt, sf);
        f.set_slot(lf, ABSENT);
        if let (Loc::Cache(_), Loc::Ws(i)) = (lf, lt)
        {
            f.restored_into[i] = true;
        }
        f.after_mutation();
        Ok(())
    }

    fn get_modified(&self, path : &str) -> Result<SystemTime, SystemError>
    {
        match fs().slot(classify(path))
        {
            Some(s) if s.present =>
            {
                unsafe { LAST_MTIME = s.mtime; }
                Ok(SystemTime::UNIX_EPOCH)
            },
            _ => Err(SystemError::NotFound),
        }
    }

    fn is_executable(&self, path : &str) -> Result<bool, SystemError>
    {
        match fs().slot(classify(path))
        {
            Some(s) if s.present => Ok(s.exec),
            _ => Err(SystemError::NotFound),
        }
    }

    fn set_is_executable(&mut self, path : &str, executable : bool) -> Result<(), SystemError>
    {
        let f = fs();
        let loc = classify(path);
        if !f.admit_mutation()
        {
            return Err(SystemError::Weird);
        }
        f.n_chmods += 1;
        f.m_created_by_ruler = true;
        f.note_path(loc);
        match f.slot(loc)
        {
            Some(mut s) if s.present =>
            {
                s.exec = executable;
                f.set_slot(loc, s);
                Ok(())
            },
            _ => Err(SystemError::NotFound),
        }
    }

    /*  Deterministic command model (the properties' own assumption): it writes
        content out[i] to target i with a fresh mtime, atomically; a failing
        command writes nothing.  Its writes are the user's command's doing, so
        they are exempt from the ruler-side monitors, but they count as
        mutations for the crash index. */
    fn execute_command(&mut self, _command_script : CommandScript) -> Vec<Result<CommandLineOutput, SystemError>>
    {
        let f = fs();
        f.n_exec += 1;
        if f.crashed
        {
            return vec![Err(SystemError::Weird)];
        }
        if f.cmd.spawn_error
        {
            return vec![Err(SystemError::CommandExecutationFailed(String::new()))];
        }
        if f.cmd.fail_code
        {
            return vec![Ok(CommandLineOutput { out : String::new(), err : String::new(), code : Some(1), success : false })];
        }
        let mut i = 0;
        while i < f.cmd.ntargets
        {
            if !f.cmd.omit[i]
            {
                if !f.admit_mutation()
                {
                    return vec![Err(SystemError::Weird)];
                }
                let t = f.cmd.target_slot[i];
                f.ws[t] = Slot { present : true, content : f.cmd.out[i], mtime : f.cmd.fresh_mtime[i],
                    exec : f.cmd.exec_out[i], inode : 50 + i as u8 };
                /*  Under the determinism assumption (I2) a command only ever
                    overwrites a target ruler left in place with identical
                    content; if a last copy disappears here, ruler let the
                    command run over a file it had not backed up. */
                if !f.nothing_lost()
                {
                    f.m_c08_lost = true;
                }
            }
            i += 1;
        }
        if f.cmd.first_line_fails
        {
            let mut v = Vec::with_capacity(2);
            v.push(Ok(CommandLineOutput { out : String::new(), err : String::new(), code : Some(1), success : false }));
            v.push(Ok(CommandLineOutput { out : String::new(), err : String::new(), code : Some(0), success : true }));
            return v;
        }
        vec![Ok(CommandLineOutput { out : String::new(), err : String::new(), code : Some(0), success : true })]
    }
}
