//! Kani stubs shared by the harnesses.  Each one is part of the claim of every
//! harness that names it in a `#[kani::stub(..)]` attribute; the check driver
//! lists them in the evidence file.

/*  Side channel from the `Ticket::human_readable` stub (harness/ticket.rs) to
    the `format!` stub: the slot character of the last ticket rendered. */
pub static mut LAST_HR : u8 = b'?';
pub static mut HR_CALLS : usize = 0;
pub static mut FORMAT_CALLS : usize = 0;

/*  Replaces `alloc::fmt::format`.  Contract relied on:
        format!("{}/{}", dir, ticket.human_readable()) names the cache entry of
        that ticket inside `dir`
    which in SymSystem's path scheme is "#" + slot character.  Every other use
    of `format!` reachable in the stubbed harnesses builds an error message or
    a state-file path whose text no assertion reads.  That the real format
    strings are "{}/{}" is validated natively (stub validation, see
    lib/validate_stubs) because a stubbed harness cannot see a changed format
    string. */
pub fn format_stub(_args : core::fmt::Arguments<'_>) -> String
{
    unsafe
    {
        FORMAT_CALLS += 1;
        let mut s = String::with_capacity(2);
        s.push('#');
        s.push(LAST_HR as char);
        s
    }
}

/*  Replaces `alloc::fmt::format` in harnesses where no path is built at all. */
pub fn format_empty_stub(_args : core::fmt::Arguments<'_>) -> String
{
    String::new()
}

/*  Replaces `alloc::alloc::dealloc`: memory is leaked instead of freed.  The
    properties checked are functional; ruler is safe Rust, so use-after-free is
    the compiler's business.  CBMC's `free` makes every later pointer
    dereference case-split on "deallocated?", which dominated symbolic
    execution of every path that drops a Vec/String (measured: handle_rule_node
    did not leave symex in 10 minutes with real deallocation). */
pub unsafe fn dealloc_noop(_ptr : *mut u8, _layout : std::alloc::Layout)
{
}

/*  Exact replacement for `String::clone` on the strings the step harnesses use
    (paths "a".."d", "#k", command "x": at most 2 bytes); longer strings are a
    harness-domain error, never assumed away.  A symbolic-length memcpy into a
    fresh allocation (what the generic clone is for CBMC) made rebuild_node's
    `paths[index].clone()` exhaust memory in post-processing. */
pub fn string_clone_short(s : &String) -> String
{
    let b = s.as_bytes();
    let n = b.len();
    let mut r = String::with_capacity(2);
    assert!(n <= 2, "string clone stub: string longer than the harness domain");
    if n >= 1
    {
        assert!(b[0] < 128);
        r.push(b[0] as char);
    }
    if n >= 2
    {
        assert!(b[1] < 128);
        r.push(b[1] as char);
    }
    r
}

/*  The stub set every SymSystem step harness uses.  Usage:
        step_harness!(name, unwind, { body });                                */
#[macro_export]
macro_rules! step_harness
{
    ($name:ident, $unwind:literal, $body:block) =>
    {
        #[kani::proof]
        #[kani::unwind($unwind)]
        #[kani::stub(crate::ticket::Ticket::human_readable, crate::ticket::verif::hr_stub)]
        #[kani::stub(alloc::fmt::format, crate::stubs::format_stub)]
        #[kani::stub(crate::system::util::get_timestamp, crate::symsys::get_timestamp_stub)]
        #[kani::stub(<crate::ticket::Ticket as PartialEq>::eq, crate::ticket::verif_eq::ticket_eq_words)]
        #[kani::stub(alloc::alloc::dealloc, crate::stubs::dealloc_noop)]
        #[kani::stub(<std::string::String as Clone>::clone, crate::stubs::string_clone_short)]
        #[kani::stub(<crate::blob::FileStateVec as Clone>::clone, crate::blob::verif::fsv_clone_small)]
        fn $name() $body
    };
}

/*  Exact replacement for `<[T]>::sort` on slices of at most 3 elements (the
    sorter harnesses' domain; longer slices are a harness-domain error): a
    three-element sorting network.  std's sort goes through raw-pointer
    insertion sort / driftsort machinery that CBMC spends minutes in. */
pub fn sort_small<T : Ord>(v : &mut [T])
{
    let n = v.len();
    assert!(n <= 3, "sort stub: more than 3 elements");
    if n >= 2 && v[1] < v[0] { v.swap(0, 1); }
    if n >= 3
    {
        if v[2] < v[1] { v.swap(1, 2); }
        if v[1] < v[0] { v.swap(0, 1); }
    }
}

/*  Exact replacements for String comparisons on strings of at most 2 bytes. */
fn short_bytes(s : &String) -> (usize, u8, u8)
{
    let b = s.as_bytes();
    let n = b.len();
    assert!(n <= 2, "string comparison stub: string longer than the harness domain");
    (n, if n >= 1 { b[0] } else { 0 }, if n >= 2 { b[1] } else { 0 })
}

pub fn string_eq_short(a : &String, b : &String) -> bool
{
    let (na, a0, a1) = short_bytes(a);
    let (nb, b0, b1) = short_bytes(b);
    na == nb && (na < 1 || a0 == b0) && (na < 2 || a1 == b1)
}

pub fn string_cmp_short(a : &String, b : &String) -> std::cmp::Ordering
{
    use std::cmp::Ordering;
    let (na, a0, a1) = short_bytes(a);
    let (nb, b0, b1) = short_bytes(b);
    if na == 0 || nb == 0
    {
        return if na == nb { Ordering::Equal } else if na == 0 { Ordering::Less } else { Ordering::Greater };
    }
    if a0 != b0 { return if a0 < b0 { Ordering::Less } else { Ordering::Greater }; }
    if na == 1 || nb == 1
    {
        return if na == nb { Ordering::Equal } else if na == 1 { Ordering::Less } else { Ordering::Greater };
    }
    if a1 != b1 { return if a1 < b1 { Ordering::Less } else { Ordering::Greater }; }
    Ordering::Equal
}

pub fn string_partial_cmp_short(a : &String, b : &String) -> Option<std::cmp::Ordering>
{
    Some(string_cmp_short(a, b))
}
