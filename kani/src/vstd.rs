//! Library models substituted for a few `std` items when ruler's sources are
//! compiled for Kani (see lib/gen.py: the textual prefixes `std::collections::`,
//! `std::thread` and `std::sync::mpsc` in ruler's `use` lines are redirected to
//! this module; nothing else in ruler's text is changed).
//!
//! Under `cfg(not(kani))` (native build of the same generated sources, used to
//! validate the models and to replay counterexamples) the real `std` items are
//! re-exported, so the generated sources compile to exactly what ruler is.
//!
//! Why: hashbrown + SipHash + getrandom and liballoc's B-trees make CBMC spend
//! its whole budget inside the containers (measured in the design round:
//! > 10 min of symbolic execution for a 3-rule sort).  The models below are
//! association lists / sorted vectors that implement the *documented contract*
//! of the std containers for the API subset ruler uses:
//!   HashMap: get/insert(replace, returns old)/remove/iter/len/contains_key,
//!            equality as a set of pairs, serde map wire format
//!   HashSet: insert/remove/contains/len
//!   BTreeSet/BTreeMap: get/insert, iteration in ascending key order
//! They are part of the trusted base of every harness that touches them.

/*  `<[T]>::sort` redirection (lib/gen.py rewrites `.sort()` to `.vsort()`).  Natively it IS
    std's sort; under Kani an exact sorting network for slices of at most 3 elements (longer
    slices are a harness-domain error, asserted, never assumed). */
pub trait VSort
{
    fn vsort(&mut self);
}

impl<T : Ord> VSort for [T]
{
    #[cfg(not(kani))]
    fn vsort(&mut self)
    {
        self.sort();
    }

    #[cfg(kani)]
    fn vsort(&mut self)
    {
        crate::stubs::sort_small(self);
    }
}

impl<T : Ord> VSort for Vec<T>
{
    fn vsort(&mut self)
    {
        self.as_mut_slice().vsort();
    }
}

#[cfg(not(kani))]
pub mod collections
{
    pub use std::collections::*;
}

/*  Native build (the replay crate): real OS threads and real std channels, behind a
    scheduler that is OFF by default (everything passes straight through to std).  When
    a replay turns it on, exactly one thread holds the baton at any time and the baton
    changes hands only at the points where threads touch shared protocol state (thread
    start / end / join, send, recv, receiver drop), chosen by a seeded policy -- so a
    schedule-dependent counterexample of the protocol engine can be shown on the real
    build() and shown again. */
#[cfg(not(kani))]
pub mod sched
{
    use std::sync::{Mutex, MutexGuard, Condvar};
    use std::cell::Cell;

    pub struct S
    {
        pub enabled : bool,
        pub gen : u64,              // every start() begins a new generation; threads and channels of older ones run free
        pub cur : usize,
        pub st : Vec<u8>,           // 0 runnable, 1 waits for a packet, 2 waits for a thread to end, 3 ended
        pub wait : Vec<usize>,
        pub chan_q : Vec<usize>,
        pub chan_sdrop : Vec<bool>,
        pub policy : u64,           // 0 lowest id first, 1 highest id first, otherwise seed of a random choice
        pub rng : u64,
        pub deadlock : bool,
        pub switches : u64,
    }

    pub static STATE : Mutex<S> = Mutex::new(S { enabled : false, gen : 0, cur : 0, st : Vec::new(), wait : Vec::new(), chan_q : Vec::new(),
        chan_sdrop : Vec::new(), policy : 0, rng : 0, deadlock : false, switches : 0 });
    pub static CV : Condvar = Condvar::new();
    thread_local! { pub static TID : Cell<(usize, u64)> = Cell::new((0, 0)); }

    fn lock() -> MutexGuard<'static, S>
    {
        match STATE.lock() { Ok(g) => g, Err(p) => p.into_inner() }
    }

    pub fn me() -> (usize, u64) { TID.with(|t| t.get()) }

    pub fn start(policy : u64)
    {
        let mut s = lock();
        let gen = s.gen + 1;
        *s = S { enabled : true, gen : gen, cur : 0, st : vec![0], wait : vec![0], chan_q : Vec::new(), chan_sdrop : Vec::new(), policy : policy,
            rng : policy.wrapping_mul(0x9E3779B97F4A7C15) | 1, deadlock : false, switches : 0 };
        TID.with(|t| t.set((0, gen)));
    }

    /*  -> (deadlocked, number of baton changes) */
    pub fn stop() -> (bool, u64)
    {
        let mut s = lock();
        s.enabled = false;
        CV.notify_all();
        (s.deadlock, s.switches)
    }

    fn live(s : &S, t : (usize, u64)) -> bool { s.enabled && t.1 == s.gen && t.0 < s.st.len() }

    fn can_run(s : &S, t : usize) -> bool
    {
        match s.st[t]
        {
            0 => true,
            1 => s.chan_q[s.wait[t]] > 0 || s.chan_sdrop[s.wait[t]],
            2 => s.st[s.wait[t]] == 3,
            _ => false,
        }
    }

    fn pick(s : &mut S)
    {
        let cands : Vec<usize> = (0..s.st.len()).filter(|t| can_run(s, *t)).collect();
        if cands.is_empty()
        {
            s.deadlock = true;
            s.cur = 0;
            return;
        }
        let c = match s.policy
        {
            0 => cands[0],
            1 => cands[cands.len() - 1],
            _ =>
            {
                s.rng ^= s.rng << 13; s.rng ^= s.rng >> 7; s.rng ^= s.rng << 17;
                cands[(s.rng % cands.len() as u64) as usize]
            }
        };
        if c != s.cur { s.switches += 1; }
        s.cur = c;
        s.st[c] = 0;
    }

    /*  give the baton away (possibly to myself) and wait until it comes back; state 0 = just a yield */
    pub fn pass(state : u8, on : usize)
    {
        let t = me();
        let mut s = lock();
        if !live(&s, t) { return; }
        if (state == 1 && on >= s.chan_q.len()) || (state == 2 && on >= s.st.len()) { return; }
        s.st[t.0] = state;
        s.wait[t.0] = on;
        pick(&mut s);
        CV.notify_all();
        while live(&s, t) && s.cur != t.0 && !(s.deadlock && t.0 == 0)
        {
            s = match CV.wait(s) { Ok(g) => g, Err(p) => p.into_inner() };
        }
        if live(&s, t) && s.deadlock && t.0 == 0
        {
            drop(s);
            panic!("deadlock: every thread waits (main in join, workers for packets that no running thread will send)");
        }
    }

    pub fn new_thread() -> Option<(usize, u64)>
    {
        let t = me();
        let mut s = lock();
        if !live(&s, t) { return None; }
        s.st.push(0);
        s.wait.push(0);
        Some((s.st.len() - 1, s.gen))
    }

    pub fn wait_turn(t : (usize, u64))
    {
        TID.with(|c| c.set(t));
        let mut s = lock();
        while live(&s, t) && s.cur != t.0
        {
            s = match CV.wait(s) { Ok(g) => g, Err(p) => p.into_inner() };
        }
    }

    pub struct EndGuard(pub (usize, u64));
    impl Drop for EndGuard
    {
        fn drop(&mut self)
        {
            let mut s = lock();
            if !live(&s, self.0) { return; }
            s.st[(self.0).0] = 3;
            pick(&mut s);
            CV.notify_all();
        }
    }

    pub fn new_channel() -> Option<(usize, u64)>
    {
        let t = me();
        let mut s = lock();
        if !live(&s, t) { return None; }
        s.chan_q.push(0);
        s.chan_sdrop.push(false);
        Some((s.chan_q.len() - 1, s.gen))
    }

    pub fn sent(c : (usize, u64)) { let mut s = lock(); if s.enabled && c.1 == s.gen && c.0 < s.chan_q.len() { s.chan_q[c.0] += 1; } }
    pub fn received(c : (usize, u64)) { let mut s = lock(); if s.enabled && c.1 == s.gen && c.0 < s.chan_q.len() && s.chan_q[c.0] > 0 { s.chan_q[c.0] -= 1; } }
    pub fn sender_dropped(c : (usize, u64)) { let mut s = lock(); if s.enabled && c.1 == s.gen && c.0 < s.chan_sdrop.len() { s.chan_sdrop[c.0] = true; } }
    pub fn chan_live(c : (usize, u64)) -> bool { let s = lock(); s.enabled && c.1 == s.gen && c.0 < s.chan_q.len() }
}

#[cfg(not(kani))]
pub mod thread
{
    use super::sched;

    pub struct JoinHandle<T>
    {
        inner : std::thread::JoinHandle<T>,
        tid : Option<(usize, u64)>,
    }

    impl<T> JoinHandle<T>
    {
        pub fn join(self) -> std::thread::Result<T>
        {
            if let Some(t) = self.tid { sched::pass(2, t.0); }
            self.inner.join()
        }
    }

    pub fn spawn<F, T>(f : F) -> JoinHandle<T>
    where F : FnOnce() -> T, F : Send + 'static, T : Send + 'static
    {
        match sched::new_thread()
        {
            None => JoinHandle { inner : std::thread::spawn(f), tid : None },
            Some(t) =>
            {
                let inner = std::thread::spawn(move ||
                {
                    sched::wait_turn(t);
                    let _guard = sched::EndGuard(t);
                    f()
                });
                sched::pass(0, 0);
                JoinHandle { inner : inner, tid : Some(t) }
            }
        }
    }
}

#[cfg(not(kani))]
pub mod mpsc
{
    pub use std::sync::mpsc::{SendError, RecvError};
    use super::sched;

    pub struct Sender<T> { inner : std::sync::mpsc::Sender<T>, cid : Option<(usize, u64)> }
    pub struct Receiver<T> { inner : std::sync::mpsc::Receiver<T>, cid : Option<(usize, u64)> }

    pub fn channel<T>() -> (Sender<T>, Receiver<T>)
    {
        let (s, r) = std::sync::mpsc::channel();
        let cid = sched::new_channel();
        (Sender { inner : s, cid : cid }, Receiver { inner : r, cid : cid })
    }

    impl<T> Sender<T>
    {
        pub fn send(&self, t : T) -> Result<(), SendError<T>>
        {
            if self.cid.is_some() { sched::pass(0, 0); }
            let r = self.inner.send(t);
            if let (Some(c), true) = (self.cid, r.is_ok()) { sched::sent(c); }
            /*  and again after it: the receiver may be the next to run, before the sender's next statement */
            if self.cid.is_some() { sched::pass(0, 0); }
            r
        }
    }

    impl<T> Receiver<T>
    {
        pub fn recv(&self) -> Result<T, RecvError>
        {
            if let Some(c) = self.cid { if sched::chan_live(c) { sched::pass(1, c.0); } }
            let r = self.inner.recv();
            if let (Some(c), true) = (self.cid, r.is_ok()) { sched::received(c); }
            r
        }
    }

    impl<T> Drop for Sender<T>
    {
        fn drop(&mut self) { if let Some(c) = self.cid { sched::sender_dropped(c); } }
    }

    impl<T> Drop for Receiver<T>
    {
        fn drop(&mut self) { if self.cid.is_some() && !std::thread::panicking() { sched::pass(0, 0); } }
    }
}

#[cfg(kani)]
pub mod collections
{
    use std::borrow::Borrow;
    use std::hash::Hash;
    use std::fmt;
    use std::marker::PhantomData;
    use serde::ser::{Serialize, Serializer, SerializeMap};
    use serde::de::{Deserialize, Deserializer, Visitor, MapAccess};

    pub struct HashMap<K, V>
    {
        pub items : Vec<(K, V)>,
    }

    impl<K : Eq + Hash, V> HashMap<K, V>
    {
        pub fn new() -> Self
        {
            HashMap { items : Vec::new() }
        }

        pub fn len(&self) -> usize
        {
            self.items.len()
        }

        fn position<Q : ?Sized>(&self, k : &Q) -> Option<usize>
        where K : Borrow<Q>, Q : Eq
        {
            let mut i = 0;
            while i < self.items.len()
            {
                if self.items[i].0.borrow() == k
                {
                    return Some(i);
                }
                i += 1;
            }
            None
        }

        pub fn get<Q : ?Sized>(&self, k : &Q) -> Option<&V>
        where K : Borrow<Q>, Q : Hash + Eq
        {
            match self.position(k)
            {
                Some(i) => Some(&self.items[i].1),
                None => None,
            }
        }

        pub fn contains_key<Q : ?Sized>(&self, k : &Q) -> bool
        where K : Borrow<Q>, Q : Hash + Eq
        {
            self.position(k).is_some()
        }

        pub fn insert(&mut self, k : K, v : V) -> Option<V>
        {
            match self.position(&k)
            {
                Some(i) =>
                {
                    let old = std::mem::replace(&mut self.items[i].1, v);
                    Some(old)
                },
                None =>
                {
                    self.items.push((k, v));
                    None
                }
            }
        }

        pub fn remove<Q : ?Sized>(&mut self, k : &Q) -> Option<V>
        where K : Borrow<Q>, Q : Hash + Eq
        {
            match self.position(k)
            {
                Some(i) => Some(self.items.remove(i).1),
                None => None,
            }
        }

        pub fn iter(&self) -> impl Iterator<Item = (&K, &V)>
        {
            self.items.iter().map(|(k, v)| (k, v))
        }
    }

    impl<K, V> IntoIterator for HashMap<K, V>
    {
        type Item = (K, V);
        type IntoIter = std::vec::IntoIter<(K, V)>;
        fn into_iter(self) -> Self::IntoIter
        {
            self.items.into_iter()
        }
    }

    impl<K : Clone, V : Clone> Clone for HashMap<K, V>
    {
        fn clone(&self) -> Self
        {
            HashMap { items : self.items.clone() }
        }
    }

    impl<K : Eq + Hash, V : PartialEq> PartialEq for HashMap<K, V>
    {
        fn eq(&self, other : &Self) -> bool
        {
            if self.items.len() != other.items.len()
            {
                return false;
            }
            let mut i = 0;
            while i < self.items.len()
            {
                match other.get(&self.items[i].0)
                {
                    Some(v) => if *v != self.items[i].1 { return false; },
                    None => return false,
                }
                i += 1;
            }
            true
        }
    }

    impl<K : fmt::Debug, V : fmt::Debug> fmt::Debug for HashMap<K, V>
    {
        fn fmt(&self, f : &mut fmt::Formatter) -> fmt::Result
        {
            write!(f, "HashMap(model)")
        }
    }

    impl<K : Serialize, V : Serialize> Serialize for HashMap<K, V>
    {
        fn serialize<S : Serializer>(&self, serializer : S) -> Result<S::Ok, S::Error>
        {
            let mut map = serializer.serialize_map(Some(self.items.len()))?;
            for (k, v) in self.items.iter()
            {
                map.serialize_entry(k, v)?;
            }
            map.end()
        }
    }

    struct MapVisitor<K, V>(PhantomData<(K, V)>);

    impl<'de, K : Deserialize<'de> + Eq + Hash, V : Deserialize<'de>> Visitor<'de> for MapVisitor<K, V>
    {
        type Value = HashMap<K, V>;

        fn expecting(&self, f : &mut fmt::Formatter) -> fmt::Result
        {
            write!(f, "a map")
        }

        fn visit_map<A : MapAccess<'de>>(self, mut access : A) -> Result<Self::Value, A::Error>
        {
            let mut m = HashMap::new();
            while let Some((k, v)) = access.next_entry()?
            {
                m.insert(k, v);
            }
            Ok(m)
        }
    }

    impl<'de, K : Deserialize<'de> + Eq + Hash, V : Deserialize<'de>> Deserialize<'de> for HashMap<K, V>
    {
        fn deserialize<D : Deserializer<'de>>(deserializer : D) -> Result<Self, D::Error>
        {
            deserializer.deserialize_map(MapVisitor(PhantomData))
        }
    }

    pub struct HashSet<T>
    {
        pub items : Vec<T>,
    }

    impl<T : Eq + Hash> HashSet<T>
    {
        pub fn new() -> Self
        {
            HashSet { items : Vec::new() }
        }

        pub fn len(&self) -> usize
        {
            self.items.len()
        }

        pub fn contains<Q : ?Sized>(&self, k : &Q) -> bool
        where T : Borrow<Q>, Q : Hash + Eq
        {
            let mut i = 0;
            while i < self.items.len()
            {
                if self.items[i].borrow() == k
                {
                    return true;
                }
                i += 1;
            }
            false
        }

        pub fn insert(&mut self, t : T) -> bool
        {
            if self.contains(&t)
            {
                false
            }
            else
            {
                self.items.push(t);
                true
            }
        }

        pub fn remove<Q : ?Sized>(&mut self, k : &Q) -> bool
        where T : Borrow<Q>, Q : Hash + Eq
        {
            let mut i = 0;
            while i < self.items.len()
            {
                if self.items[i].borrow() == k
                {
                    self.items.remove(i);
                    return true;
                }
                i += 1;
            }
            false
        }
    }

    /*  Sorted association list; iteration in ascending key order like BTreeMap. */
    pub struct BTreeMap<K, V>
    {
        pub items : Vec<(K, V)>,
    }

    impl<K : Ord, V> BTreeMap<K, V>
    {
        pub fn new() -> Self
        {
            BTreeMap { items : Vec::new() }
        }

        pub fn len(&self) -> usize
        {
            self.items.len()
        }

        pub fn get<Q : ?Sized>(&self, k : &Q) -> Option<&V>
        where K : Borrow<Q>, Q : Ord
        {
            let mut i = 0;
            while i < self.items.len()
            {
                if self.items[i].0.borrow() == k
                {
                    return Some(&self.items[i].1);
                }
                i += 1;
            }
            None
        }

        pub fn insert(&mut self, k : K, v : V) -> Option<V>
        {
            let mut i = 0;
            while i < self.items.len()
            {
                if self.items[i].0 == k
                {
                    let old = std::mem::replace(&mut self.items[i].1, v);
                    return Some(old);
                }
                if self.items[i].0 > k
                {
                    break;
                }
                i += 1;
            }
            self.items.insert(i, (k, v));
            None
        }
    }

    impl<K, V> IntoIterator for BTreeMap<K, V>
    {
        type Item = (K, V);
        type IntoIter = std::vec::IntoIter<(K, V)>;
        fn into_iter(self) -> Self::IntoIter
        {
            self.items.into_iter()
        }
    }

    pub struct BTreeSet<T>
    {
        pub items : Vec<T>,
    }

    impl<T : Ord> BTreeSet<T>
    {
        pub fn new() -> Self
        {
            BTreeSet { items : Vec::new() }
        }

        pub fn len(&self) -> usize
        {
            self.items.len()
        }

        pub fn insert(&mut self, t : T) -> bool
        {
            let mut i = 0;
            while i < self.items.len()
            {
                if self.items[i] == t
                {
                    return false;
                }
                if self.items[i] > t
                {
                    break;
                }
                i += 1;
            }
            self.items.insert(i, t);
            true
        }
    }

    impl<T> IntoIterator for BTreeSet<T>
    {
        type Item = T;
        type IntoIter = std::vec::IntoIter<T>;
        fn into_iter(self) -> Self::IntoIter
        {
            self.items.into_iter()
        }
    }
}

/*  Sequentialising thread shim with Kahn monitors (DESIGN §3.1).
    `spawn(f)` runs `f` to completion at the spawn point (canonical schedule =
    spawn order = the plan's topological order) and keeps the result for
    `join`.  A channel is a one-slot cell.  The monitors are plain assertions
    collected in the MON_* flags so that a harness can also read them. */
#[cfg(kani)]
pub mod thread
{
    pub struct JoinHandle<T>
    {
        result : Option<T>,
    }

    impl<T> JoinHandle<T>
    {
        pub fn join(self) -> Result<T, Box<dyn std::any::Any + Send + 'static>>
        {
            match self.result
            {
                Some(r) => Ok(r),
                None => Err(Box::new(())),
            }
        }
    }

    pub fn spawn<F, T>(f : F) -> JoinHandle<T>
    where F : FnOnce() -> T, F : Send + 'static, T : Send + 'static
    {
        unsafe { super::mpsc::SPAWNED += 1; }
        let r = f();
        unsafe { super::mpsc::FINISHED += 1; }
        JoinHandle { result : Some(r) }
    }
}

#[cfg(kani)]
pub mod mpsc
{
    use std::fmt;
    use std::marker::PhantomData;

    pub const MAXCH : usize = 16;

    /*  Per-channel monitor state (global: endpoints are moved between "threads"). */
    pub static mut NCH : usize = 0;
    pub static mut SENT : [u8; MAXCH] = [0; MAXCH];          // number of sends on the edge
    pub static mut RECEIVED : [bool; MAXCH] = [false; MAXCH];
    pub static mut SENDER_DROPPED : [bool; MAXCH] = [false; MAXCH];
    pub static mut RECEIVER_DROPPED : [bool; MAXCH] = [false; MAXCH];
    pub static mut SPAWNED : usize = 0;
    pub static mut FINISHED : usize = 0;

    /*  Kahn monitor verdicts (true = violated). */
    pub static mut K_SEND_TWICE : bool = false;          // more than one send on an edge
    pub static mut K_SENDER_DROPPED_UNSENT : bool = false; // sender dropped without sending
    pub static mut K_RECEIVER_DROPPED_EARLY : bool = false; // receiver dropped before its packet was received
    pub static mut K_SEND_AFTER_HANGUP : bool = false;   // send found the receiver gone (SendError in some schedule)
    pub static mut K_RECV_WOULD_BLOCK : bool = false;    // recv on empty slot with live sender: waits on a later thread (deadlock)
    pub static mut K_RECV_HANGUP : bool = false;         // recv on empty slot with dropped sender (RecvError)

    pub struct SendError<T>(pub T);
    #[derive(Debug, PartialEq, Eq, Clone, Copy)]
    pub struct RecvError;

    impl<T> fmt::Debug for SendError<T>
    {
        fn fmt(&self, f : &mut fmt::Formatter) -> fmt::Result { write!(f, "SendError") }
    }
    impl<T> fmt::Display for SendError<T>
    {
        fn fmt(&self, f : &mut fmt::Formatter) -> fmt::Result { write!(f, "sending on a closed channel") }
    }
    impl fmt::Display for RecvError
    {
        fn fmt(&self, f : &mut fmt::Formatter) -> fmt::Result { write!(f, "receiving on a closed channel") }
    }

    pub struct Sender<T>
    {
        pub id : usize,
        slot : *mut Option<T>,
        _p : PhantomData<T>,
    }

    pub struct Receiver<T>
    {
        pub id : usize,
        slot : *mut Option<T>,
        _p : PhantomData<T>,
    }

    unsafe impl<T : Send> Send for Sender<T> {}
    unsafe impl<T : Send> Send for Receiver<T> {}

    pub fn channel<T>() -> (Sender<T>, Receiver<T>)
    {
        let id = unsafe { let i = NCH; NCH += 1; i };
        assert!(id < MAXCH, "shim: more channels than MAXCH");
        /*  The slot is leaked on purpose: no drop glue for CBMC to execute, and
            both endpoints may outlive each other. */
        let slot : *mut Option<T> = Box::into_raw(Box::new(None));
        (Sender { id, slot, _p : PhantomData }, Receiver { id, slot, _p : PhantomData })
    }

    impl<T> Sender<T>
    {
        pub fn send(&self, t : T) -> Result<(), SendError<T>>
        {
            unsafe
            {
                if SENT[self.id] >= 1
                {
                    K_SEND_TWICE = true;
                }
                if RECEIVER_DROPPED[self.id]
                {
                    K_SEND_AFTER_HANGUP = true;
                    return Err(SendError(t));
                }
                SENT[self.id] += 1;
                *self.slot = Some(t);
            }
            Ok(())
        }
    }

    impl<T> Drop for Sender<T>
    {
        fn drop(&mut self)
        {
            unsafe
            {
                SENDER_DROPPED[self.id] = true;
                if SENT[self.id] == 0
                {
                    K_SENDER_DROPPED_UNSENT = true;
                }
            }
        }
    }

    impl<T> Receiver<T>
    {
        pub fn recv(&self) -> Result<T, RecvError>
        {
            unsafe
            {
                match (*self.slot).take()
                {
                    Some(t) =>
                    {
                        RECEIVED[self.id] = true;
                        Ok(t)
                    },
                    None =>
                    {
                        if SENDER_DROPPED[self.id]
                        {
                            K_RECV_HANGUP = true;
                        }
                        else
                        {
                            K_RECV_WOULD_BLOCK = true;
                        }
                        Err(RecvError)
                    }
                }
            }
        }
    }

    impl<T> Drop for Receiver<T>
    {
        fn drop(&mut self)
        {
            unsafe
            {
                RECEIVER_DROPPED[self.id] = true;
                if !RECEIVED[self.id]
                {
                    K_RECEIVER_DROPPED_EARLY = true;
                }
            }
        }
    }

    pub fn kahn_ok() -> bool
    {
        unsafe
        {
            !(K_SEND_TWICE || K_SENDER_DROPPED_UNSENT || K_RECEIVER_DROPPED_EARLY
                || K_SEND_AFTER_HANGUP || K_RECV_WOULD_BLOCK || K_RECV_HANGUP)
        }
    }
}
