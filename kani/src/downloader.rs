//! Harness-owned replacement for ruler's src/downloader.rs (reqwest + tokio:
//! network FFI, not encodable).  The network is a nondeterministic environment
//! whose only in-scope behaviour is "nothing can be downloaded": every property
//! is stated for the downloader switched off / no download URLs (build() always
//! passes Some(DownloaderCache) but with an empty URL list when no urls file is
//! given, in which case these functions are never called).  If a harness ever
//! reaches them they answer "inaccessible", which is what an empty URL list or
//! an unreachable server gives.
use crate::system::System;
use std::fmt;

pub enum DownloadError
{
    UrlInaccessible(String),
    FailedMidDownload(String),
    FileWouldNotCreate(String),
    FileWriteDidNotFinish(String),
}

impl fmt::Display for DownloadError
{
    fn fmt(&self, formatter: &mut fmt::Formatter) -> fmt::Result
    {
        write!(formatter, "download error")
    }
}

pub static mut DOWNLOAD_CALLS : usize = 0;

pub fn download_file<SystemType : System>(
    _system : &mut SystemType,
    _url : &str,
    _path : &str) -> Result<(), DownloadError>
{
    unsafe { DOWNLOAD_CALLS += 1; }
    Err(DownloadError::UrlInaccessible(String::new()))
}

pub fn download_string(_url : &str) -> Result<String, DownloadError>
{
    unsafe { DOWNLOAD_CALLS += 1; }
    Err(DownloadError::UrlInaccessible(String::new()))
}
