//! Harness crate: its module tree IS ruler's.  Every `gen/<m>.rs` is
//! /repo/src/<m>.rs as of this run (see /verif/lib/gen.py) plus the appended
//! `#[cfg(kani)] mod verif` holding the proof harnesses for that module.
#![allow(dead_code, unused_imports, unused_variables, unused_mut, static_mut_refs, unused_unsafe)]

extern crate toml;
extern crate serde;
extern crate execute;

pub mod vstd;

#[cfg(kani)]
pub fn vassume(c : bool) { kani::assume(c); }
#[cfg(kani)]
#[path = "../../shared/prestate.rs"]
pub mod prestate;
#[cfg(kani)]
#[path = "../../shared/sortcase.rs"]
pub mod sortcase;
#[cfg(kani)]
pub mod symsys;
#[cfg(kani)]
pub mod fixture;
#[cfg(kani)]
pub mod stubs;

#[path = "../gen/blob.rs"] pub mod blob;
#[path = "../gen/bundle.rs"] pub mod bundle;
#[path = "../gen/build.rs"] pub mod build;
#[path = "../gen/cache.rs"] pub mod cache;
#[path = "../gen/directory.rs"] pub mod directory;
#[path = "../gen/current.rs"] pub mod current;
#[path = "../gen/history.rs"] pub mod history;
#[path = "../gen/packet.rs"] pub mod packet;
#[path = "../gen/printer.rs"] pub mod printer;
#[path = "../gen/rule.rs"] pub mod rule;
#[path = "../gen/sort.rs"] pub mod sort;
#[path = "../gen/system/mod.rs"] pub mod system;
#[path = "../gen/ticket.rs"] pub mod ticket;
#[path = "../gen/work.rs"] pub mod work;
pub mod downloader;
