//! "Ideal hash" stand-in for rust-crypto's SHA-256, used ONLY by the Kani
//! harness crate (the native replay crate links the real rust-crypto).
//!
//! Contract relied on by the harnesses: the digest is a deterministic function
//! of the byte stream fed through `input`, and it is INJECTIVE on the domain
//! the harnesses use.  Every property of ruler is stated modulo SHA-256
//! collisions, so an injective function is the right abstraction; the real
//! SHA-256 would make CBMC bit-blast 64 rounds per call for nothing.
//!
//! Encoding (loop-free on purpose: `copy_from_slice` is a memcpy for CBMC):
//!   * stream of n <= 31 bytes          -> [n, b0, .., b(n-1), 0, ..]
//!   * stream of k 32-byte blocks, 1<=k<=7, each block being itself a digest
//!     whose bytes 4.. are zero ("hash of hashes", used by
//!     wait_for_sources_ticket) -> [0x80|k, blk0[0..4], blk1[0..4], ..]
//!     (only the 4 leading bytes of each block are stored: no big array, no
//!     symbolic offsets)
//!   * anything else: `assert!(false)` -- the harness left the domain on which
//!     injectivity is guaranteed; that is a harness error, never assumed away.
//!
//! RECORD mode (C13): the last finished stream (up to RCAP bytes) is kept in a
//! global so that a harness can compare the *streams* two rule identities are
//! computed from; under the ideal-hash assumption ticket equality is stream
//! equality.

pub const CAP: usize = 40;
pub const RCAP: usize = 48;

pub static mut LAST_STREAM: [u8; RCAP] = [0u8; RCAP];
pub static mut LAST_LEN: usize = 0;
pub static mut RECORD: bool = false;
pub static mut RESULT_CALLS: usize = 0;
pub static mut INPUT_BYTES: usize = 0;
pub static mut DOMAIN_OK: bool = true;

/*  MONITOR mode (C15b): the digest does not hash; it audits the byte stream it
    is fed against ONE watched position chosen by the harness as a symbolic
    value (so the check holds for every position): the byte that arrives at
    stream offset MON_J must be MON_CJ, and MON_OFF counts the bytes fed. */
pub static mut MONITOR: bool = false;
pub static mut MON_J: usize = 0;
pub static mut MON_CJ: u8 = 0;
pub static mut MON_OFF: usize = 0;
pub static mut MON_BAD: bool = false;
pub static mut MON_SEEN: bool = false;
pub static mut MON_CALLS: usize = 0;

pub mod digest
{
    pub trait Digest
    {
        fn input(&mut self, input: &[u8]);
        fn result(&mut self, out: &mut [u8]);
        fn reset(&mut self);
        fn output_bits(&self) -> usize;
        fn input_str(&mut self, input: &str)
        {
            self.input(input.as_bytes());
        }
    }
}

pub mod sha2
{
    use super::digest::Digest;
    use super::*;

    #[derive(Clone, Copy)]
    pub struct Sha256
    {
        pub buf: [u8; CAP],
        pub len: usize,
        /*  "hash of hashes" streams (wait_for_sources_ticket): 32-byte blocks that are themselves
            digests of the packed domain (bytes 4.. zero); only their first 4 bytes are kept */
        pub blk: [[u8; 4]; 7],
        pub nblk: usize,
    }

    impl Sha256
    {
        pub fn new() -> Sha256
        {
            Sha256 { buf: [0u8; CAP], len: 0, blk: [[0u8; 4]; 7], nblk: 0 }
        }
    }

    impl Digest for Sha256
    {
        fn input(&mut self, input: &[u8])
        {
            let n = input.len();
            unsafe
            {
                if MONITOR
                {
                    MON_CALLS += 1;
                    if MON_J >= MON_OFF && MON_J - MON_OFF < n
                    {
                        MON_SEEN = true;
                        if input[MON_J - MON_OFF] != MON_CJ
                        {
                            MON_BAD = true;
                        }
                    }
                    MON_OFF += n;
                    return;
                }
            }
            unsafe { INPUT_BYTES += n; }
            if n == 0
            {
                return;
            }
            if self.len + n > CAP
            {
                unsafe { DOMAIN_OK = false; }
                assert!(false, "ideal hash: stream longer than CAP (harness left the injective domain)");
                return;
            }
            /*  Concrete-size copies on the common sizes keep CBMC's array
                encoding small (a symbolic-length memcpy is the expensive case). */
            if n == 1
            {
                self.buf[self.len] = input[0];
            }
            else if n == 32
            {
                /*  a 32-byte block: a digest fed into a digest.  Kept apart from the byte stream
                    (mixing the two is outside the modelled domain). */
                if self.len != 0 || self.nblk >= 7
                {
                    unsafe { DOMAIN_OK = false; }
                    assert!(false, "ideal hash: digest block mixed with plain bytes, or more than 7 blocks");
                    return;
                }
                let w = |k : usize| -> u64 { u64::from_le_bytes([input[k], input[k+1], input[k+2], input[k+3], input[k+4], input[k+5], input[k+6], input[k+7]]) };
                if input[4] != 0 || input[5] != 0 || input[6] != 0 || input[7] != 0 || w(8) != 0 || w(16) != 0 || w(24) != 0
                {
                    unsafe { DOMAIN_OK = false; }
                    assert!(false, "ideal hash: inner digest outside the packed domain");
                    return;
                }
                self.blk[self.nblk] = [input[0], input[1], input[2], input[3]];
                self.nblk += 1;
                return;
            }
            else if n == 2
            {
                self.buf[self.len] = input[0];
                self.buf[self.len + 1] = input[1];
            }
            else if n == 3
            {
                self.buf[self.len] = input[0];
                self.buf[self.len + 1] = input[1];
                self.buf[self.len + 2] = input[2];
            }
            else
            {
                unsafe { DOMAIN_OK = false; }
                assert!(false, "ideal hash: chunk size outside {0,1,2,3,32} (harness left the modelled domain)");
                return;
            }
            self.len += n;
        }

        fn result(&mut self, out: &mut [u8])
        {
            unsafe { RESULT_CALLS += 1; }
            assert!(out.len() == 32);
            let mut o = [0u8; 32];
            let n = self.len;
            unsafe
            {
                if RECORD
                {
                    assert!(n <= RCAP, "ideal hash: recorded stream longer than RCAP");
                    /*  buf is zero beyond len (never written), CAP >= RCAP is not required: copy the common prefix */
                    let mut rec = [0u8; RCAP];
                    if CAP >= RCAP
                    {
                        rec.copy_from_slice(&self.buf[0..RCAP]);
                    }
                    else
                    {
                        rec[0..CAP].copy_from_slice(&self.buf[0..CAP]);
                    }
                    LAST_STREAM = rec;
                    LAST_LEN = n;
                    o[0] = 0x7f;
                    out.copy_from_slice(&o);
                    return;
                }
            }
            if self.nblk > 0
            {
                if n != 0
                {
                    unsafe { DOMAIN_OK = false; }
                    assert!(false, "ideal hash: digest blocks mixed with plain bytes");
                }
                let k = self.nblk;
                o[0] = 0x80 | (k as u8);
                if k > 0 { o[1] = self.blk[0][0]; o[2] = self.blk[0][1]; o[3] = self.blk[0][2]; o[4] = self.blk[0][3]; }
                if k > 1 { o[5] = self.blk[1][0]; o[6] = self.blk[1][1]; o[7] = self.blk[1][2]; o[8] = self.blk[1][3]; }
                if k > 2 { o[9] = self.blk[2][0]; o[10] = self.blk[2][1]; o[11] = self.blk[2][2]; o[12] = self.blk[2][3]; }
                if k > 3 { o[13] = self.blk[3][0]; o[14] = self.blk[3][1]; o[15] = self.blk[3][2]; o[16] = self.blk[3][3]; }
                if k > 4 { o[17] = self.blk[4][0]; o[18] = self.blk[4][1]; o[19] = self.blk[4][2]; o[20] = self.blk[4][3]; }
                if k > 5 { o[21] = self.blk[5][0]; o[22] = self.blk[5][1]; o[23] = self.blk[5][2]; o[24] = self.blk[5][3]; }
                if k > 6 { o[25] = self.blk[6][0]; o[26] = self.blk[6][1]; o[27] = self.blk[6][2]; o[28] = self.blk[6][3]; }
            }
            else if n <= 31
            {
                o[0] = n as u8;
                o[1..32].copy_from_slice(&self.buf[0..31]);
                // bytes beyond n in buf are zero by construction (never written)
            }
            else
            {
                unsafe { DOMAIN_OK = false; }
                assert!(false, "ideal hash: stream length outside the injective domain");
            }
            out.copy_from_slice(&o);
        }

        fn reset(&mut self)
        {
            self.buf = [0u8; CAP];
            self.len = 0;
            self.blk = [[0u8; 4]; 7];
            self.nblk = 0;
        }

        fn output_bits(&self) -> usize
        {
            256
        }
    }
}
