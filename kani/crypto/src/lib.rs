//! "Ideal hash" stand-in for rust-crypto's SHA-256, used ONLY by the Kani
//! harness crate (the native replay crate links the real rust-crypto).
//!
//! Contract relied on by the harnesses: the digest is a deterministic function
//! of the byte stream fed through `input`, and it is INJECTIVE on the domain
//! the harnesses use.  Every property of ruler is stated modulo SHA-256
//! collisions, so an injective function is the right abstraction; the real
//! SHA-256 would make CBMC bit-blast 64 rounds per call for nothing.
//!
//! Encoding (loop-free on purpose: `copy_from_slice` is a memcpy for CBMC):
//!   * stream of n <= 31 bytes          -> [n, b0, .., b(n-1), 0, ..]
//!   * stream of 32*k bytes, 1<=k<=7, each 32-byte block being itself a digest
//!     whose bytes 4.. are zero ("hash of hashes", used by
//!     wait_for_sources_ticket) -> [0x80|k, blk0[0..4], blk1[0..4], ..]
//!   * anything else: `assert!(false)` -- the harness left the domain on which
//!     injectivity is guaranteed; that is a harness error, never assumed away.
//!
//! RECORD mode (C13): the last finished stream (up to RCAP bytes) is kept in a
//! global so that a harness can compare the *streams* two rule identities are
//! computed from; under the ideal-hash assumption ticket equality is stream
//! equality.

#[cfg(feature = "bigcap")]
pub const CAP: usize = 224;
#[cfg(not(feature = "bigcap"))]
pub const CAP: usize = 40;
pub const RCAP: usize = 48;

pub static mut LAST_STREAM: [u8; RCAP] = [0u8; RCAP];
pub static mut LAST_LEN: usize = 0;
pub static mut RECORD: bool = false;
pub static mut RESULT_CALLS: usize = 0;
pub static mut INPUT_BYTES: usize = 0;
pub static mut DOMAIN_OK: bool = true;

/*  MONITOR mode (C15b): the digest does not hash; it audits the byte stream it
    is fed against ONE watched position chosen by the harness as a symbolic
    value (so the check holds for every position): the byte that arrives at
    stream offset MON_J must be MON_CJ, and MON_OFF counts the bytes fed. */
pub static mut MONITOR: bool = false;
pub static mut MON_J: usize = 0;
pub static mut MON_CJ: u8 = 0;
pub static mut MON_OFF: usize = 0;
pub static mut MON_BAD: bool = false;
pub static mut MON_SEEN: bool = false;
pub static mut MON_CALLS: usize = 0;

pub mod digest
{
    pub trait Digest
    {
        fn input(&mut self, input: &[u8]);
        fn result(&mut self, out: &mut [u8]);
        fn reset(&mut self);
        fn output_bits(&self) -> usize;
        fn input_str(&mut self, input: &str)
        {
            self.input(input.as_bytes());
        }
    }
}

pub mod sha2
{
    use super::digest::Digest;
    use super::*;

    #[derive(Clone, Copy)]
    pub struct Sha256
    {
        pub buf: [u8; CAP],
        pub len: usize,
    }

    impl Sha256
    {
        pub fn new() -> Sha256
        {
            Sha256 { buf: [0u8; CAP], len: 0 }
        }
    }

    impl Digest for Sha256
    {
        fn input(&mut self, input: &[u8])
        {
            let n = input.len();
            unsafe
            {
                if MONITOR
                {
                    MON_CALLS += 1;
                    if MON_J >= MON_OFF && MON_J - MON_OFF < n
                    {
                        MON_SEEN = true;
                        if input[MON_J - MON_OFF] != MON_CJ
                        {
                            MON_BAD = true;
                        }
                    }
                    MON_OFF += n;
                    return;
                }
            }
            unsafe { INPUT_BYTES += n; }
            if n == 0
            {
                return;
            }
            if self.len + n > CAP
            {
                unsafe { DOMAIN_OK = false; }
                assert!(false, "ideal hash: stream longer than CAP (harness left the injective domain)");
                return;
            }
            /*  Concrete-size copies on the common sizes keep CBMC's array
                encoding small (a symbolic-length memcpy is the expensive case). */
            if n == 1
            {
                self.buf[self.len] = input[0];
            }
            else if n == 32
            {
                let mut tmp = [0u8; 32];
                tmp.copy_from_slice(input);
                self.buf[self.len..self.len + 32].copy_from_slice(&tmp);
            }
            else if n == 2
            {
                self.buf[self.len] = input[0];
                self.buf[self.len + 1] = input[1];
            }
            else if n == 3
            {
                self.buf[self.len] = input[0];
                self.buf[self.len + 1] = input[1];
                self.buf[self.len + 2] = input[2];
            }
            else
            {
                unsafe { DOMAIN_OK = false; }
                assert!(false, "ideal hash: chunk size outside {0,1,2,3,32} (harness left the modelled domain)");
                return;
            }
            self.len += n;
        }

        fn result(&mut self, out: &mut [u8])
        {
            unsafe { RESULT_CALLS += 1; }
            assert!(out.len() == 32);
            let mut o = [0u8; 32];
            let n = self.len;
            unsafe
            {
                if RECORD
                {
                    assert!(n <= RCAP, "ideal hash: recorded stream longer than RCAP");
                    /*  buf is zero beyond len (never written), CAP >= RCAP is not required: copy the common prefix */
                    let mut rec = [0u8; RCAP];
                    if CAP >= RCAP
                    {
                        rec.copy_from_slice(&self.buf[0..RCAP]);
                    }
                    else
                    {
                        rec[0..CAP].copy_from_slice(&self.buf[0..CAP]);
                    }
                    LAST_STREAM = rec;
                    LAST_LEN = n;
                    o[0] = 0x7f;
                    out.copy_from_slice(&o);
                    return;
                }
            }
            if n <= 31
            {
                o[0] = n as u8;
                o[1..32].copy_from_slice(&self.buf[0..31]);
                // bytes beyond n in buf are zero by construction (never written)
            }
            else if cfg!(feature = "bigcap") && n % 32 == 0 && n / 32 <= 7
            {
                let k = n / 32;
                o[0] = 0x80 | (k as u8);
                let mut b = 0;
                while b < 7
                {
                    if b < k
                    {
                        let base = 32 * b;
                        let mut j = 4;
                        while j < 32
                        {
                            if self.buf[base + j] != 0
                            {
                                unsafe { DOMAIN_OK = false; }
                                assert!(false, "ideal hash: inner digest outside the packed domain");
                            }
                            j += 1;
                        }
                        o[1 + 4 * b] = self.buf[base];
                        o[2 + 4 * b] = self.buf[base + 1];
                        o[3 + 4 * b] = self.buf[base + 2];
                        o[4 + 4 * b] = self.buf[base + 3];
                    }
                    b += 1;
                }
            }
            else
            {
                unsafe { DOMAIN_OK = false; }
                assert!(false, "ideal hash: stream length outside the injective domain");
            }
            out.copy_from_slice(&o);
        }

        fn reset(&mut self)
        {
            self.buf = [0u8; CAP];
            self.len = 0;
        }

        fn output_bits(&self) -> usize
        {
            256
        }
    }
}
