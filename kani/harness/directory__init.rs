
/*  C11 (start-up half): directory::init from ANY partial state of the ruler
    directory -- each of the directory itself, cache/, history/ present or not,
    which is every state a kill during an earlier init can leave -- creates
    what is missing and succeeds.  CurrentFileStates::from_file is modelled
    (its own code is C16's / C11b's subject). */
#[cfg(kani)]
pub mod verif_init
{
    use super::*;
    use crate::system::{System, SystemError, CommandScript, CommandLineOutput};
    use std::io;
    use std::time::SystemTime;

    pub static mut DIRS : [bool; 3] = [false; 3];      // ".", "./cache", "./history"
    pub static mut CREATED : [u8; 3] = [0; 3];
    pub static mut OTHER : bool = false;
    pub static mut TABLE_OPENED_AT : usize = 9;        // which path the table was asked for (8 = expected)

    #[derive(Clone)]
    pub struct DirSys {}
    #[derive(Debug)]
    pub struct NoFile {}
    impl io::Read for NoFile { fn read(&mut self, _b : &mut [u8]) -> io::Result<usize> { Ok(0) } }
    impl io::Write for NoFile { fn write(&mut self, b : &[u8]) -> io::Result<usize> { Ok(b.len()) } fn flush(&mut self) -> io::Result<()> { Ok(()) } }

    /*  format! is stubbed to a path-kind marker: the stub returns the strings "c", "h", "t"
        for the 1st, 2nd, 3rd call (cache path, history path, table path: init's call order is
        checked by the DirSys itself, which only accepts create_dir("c") after "." exists, etc.) */
    pub static mut FORMAT_N : usize = 0;
    pub fn format_seq(_a : core::fmt::Arguments<'_>) -> String
    {
        unsafe
        {
            FORMAT_N += 1;
            let mut s = String::with_capacity(1);
            s.push(match FORMAT_N { 1 => 'c', 2 => 'h', 3 => 't', _ => '?' });
            s
        }
    }

    fn which(path : &str) -> usize
    {
        let b = path.as_bytes();
        if b.len() != 1 { return 9; }
        match b[0] { b'.' => 0, b'c' => 1, b'h' => 2, b't' => 8, _ => 9 }
    }

    impl System for DirSys
    {
        type File = NoFile;
        fn open(&self, _path : &str) -> Result<Self::File, SystemError> { Err(SystemError::NotFound) }
        fn create_file(&mut self, _path : &str) -> Result<Self::File, SystemError> { Ok(NoFile {}) }
        fn create_dir(&mut self, path : &str) -> Result<(), SystemError>
        {
            unsafe
            {
                let w = which(path);
                if w > 2 { OTHER = true; return Err(SystemError::NotFound); }
                if w > 0 && !DIRS[0] { return Err(SystemError::NotFound); }     // parent missing
                if DIRS[w] { return Err(SystemError::Weird); }                  // mkdir on an existing directory fails
                DIRS[w] = true;
                CREATED[w] += 1;
                Ok(())
            }
        }
        fn is_dir(&self, path : &str) -> bool { unsafe { let w = which(path); w <= 2 && DIRS[w] } }
        fn is_file(&self, _path : &str) -> bool { false }
        fn list_dir(&self, _path : &str) -> Result<Vec<String>, SystemError> { Err(SystemError::NotImplemented) }
        fn rename(&mut self, _from : &str, _to : &str) -> Result<(), SystemError> { unsafe { OTHER = true; } Err(SystemError::NotImplemented) }
        fn get_modified(&self, _path : &str) -> Result<SystemTime, SystemError> { Err(SystemError::NotImplemented) }
        fn is_executable(&self, _path : &str) -> Result<bool, SystemError> { Err(SystemError::NotImplemented) }
        fn set_is_executable(&mut self, _path : &str, _e : bool) -> Result<(), SystemError> { unsafe { OTHER = true; } Err(SystemError::NotImplemented) }
        fn execute_command(&mut self, _c : CommandScript) -> Vec<Result<CommandLineOutput, SystemError>> { unsafe { OTHER = true; } Vec::new() }
    }

    pub fn table_model<SystemType : System>(system : SystemType, path : String) -> Result<CurrentFileStates<SystemType>, CurrentFileStatesError>
    {
        unsafe { TABLE_OPENED_AT = which(&path); }
        std::mem::forget(path);
        Ok(crate::current::verif::empty_table(system))
    }

    #[kani::proof]
    #[kani::unwind(5)]
    #[kani::stub(alloc::fmt::format, crate::directory::verif_init::format_seq)]
    #[kani::stub(alloc::alloc::dealloc, crate::stubs::dealloc_noop)]
    #[kani::stub(crate::current::CurrentFileStates::from_file, crate::directory::verif_init::table_model)]
    fn init_any_partial_directory()
    {
        let d : [bool; 3] = kani::any();
        /*  a sub-directory cannot exist without its parent */
        kani::assume(d[0] || (!d[1] && !d[2]));
        unsafe { DIRS = d; }
        let mut sys = DirSys {};
        let r = init(&mut sys, ".");
        unsafe
        {
            kani::cover!(d[0] && !d[1], "directory present, cache missing (a kill between the two mkdirs)");
            assert!(!OTHER, "[C09][C11] initialising the ruler directory touched something else");
            match r
            {
                Ok(e) =>
                {
                    assert!(DIRS[0] && DIRS[1] && DIRS[2], "[C11] start-up succeeded but the ruler directory, its cache or its history directory is missing (left over from a killed first run)");
                    assert!(TABLE_OPENED_AT == 8, "[C11] the file-state table was not looked for inside the ruler directory");
                    std::mem::forget(e);
                },
                Err(e) =>
                {
                    assert!(false, "[C11] start-up fails on a partly created ruler directory (as left by a kill during an earlier start-up)");
                    std::mem::forget(e);
                },
            }
            let mut w = 0;
            while w < 3
            {
                assert!(CREATED[w] == (if d[w] { 0 } else { 1 }), "[C11][C09] a directory that already exists is created again, or a missing one is not created exactly once");
                w += 1;
            }
        }
    }
}
