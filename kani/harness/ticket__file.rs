
/*  C15(b): TicketFactory::from_file feeds the digest exactly the file's bytes,
    in order, whatever the pattern of short reads.  The file is N arbitrary
    bytes (N symbolic, <= NMAX); each read() returns a symbolic count
    1..=min(buffer, remaining) (thorough: at least MINCHUNK unless fewer remain)
    and arbitrary buffer contents, except that the byte at ONE symbolic file
    offset J is pinned to a symbolic value CJ.  The monitoring digest
    (kani/crypto, MONITOR mode) then checks that stream offset J carries CJ and
    that the stream is N bytes long; J being symbolic, that is every offset. */
#[cfg(kani)]
pub mod verif_file
{
    use super::*;
    use crate::system::{System, SystemError, CommandScript, CommandLineOutput};
    use std::io;
    use std::time::SystemTime;

    pub static mut N : usize = 0;
    pub static mut POS : usize = 0;
    pub static mut J : usize = 0;
    pub static mut CJ : u8 = 0;
    pub static mut READS : usize = 0;
    pub static mut MINCHUNK : usize = 1;
    pub static mut FAIL_AT : usize = usize::MAX;
    pub static mut OPENED : usize = 0;
    pub static mut EXISTS : bool = true;

    #[derive(Clone)]
    pub struct ChunkSys {}
    #[derive(Debug)]
    pub struct ChunkFile {}

    impl io::Read for ChunkFile
    {
        fn read(&mut self, buf : &mut [u8]) -> io::Result<usize>
        {
            unsafe
            {
                if READS == FAIL_AT
                {
                    READS += 1;
                    return Err(io::Error::from(io::ErrorKind::Interrupted));
                }
                READS += 1;
                if POS >= N || buf.len() == 0
                {
                    return Ok(0);
                }
                let remaining = N - POS;
                let k : usize = kani::any();
                kani::assume(k >= 1 && k <= remaining && k <= buf.len());
                kani::assume(k >= MINCHUNK || k == remaining || k == buf.len());
                if buf.len() == 256
                {
                    let fill : [u8; 256] = kani::any();
                    buf.copy_from_slice(&fill);
                }
                if J >= POS && J - POS < k
                {
                    buf[J - POS] = CJ;
                }
                POS += k;
                Ok(k)
            }
        }
    }

    impl io::Write for ChunkFile
    {
        fn write(&mut self, buf : &[u8]) -> io::Result<usize> { Ok(buf.len()) }
        fn flush(&mut self) -> io::Result<()> { Ok(()) }
    }

    impl System for ChunkSys
    {
        type File = ChunkFile;
        fn open(&self, _path : &str) -> Result<Self::File, SystemError>
        {
            unsafe
            {
                OPENED += 1;
                if EXISTS { Ok(ChunkFile {}) } else { Err(SystemError::NotFound) }
            }
        }
        fn create_file(&mut self, _path : &str) -> Result<Self::File, SystemError> { Err(SystemError::NotImplemented) }
        fn create_dir(&mut self, _path : &str) -> Result<(), SystemError> { Err(SystemError::NotImplemented) }
        fn is_dir(&self, _path : &str) -> bool { false }
        fn is_file(&self, _path : &str) -> bool { unsafe { EXISTS } }
        fn list_dir(&self, _path : &str) -> Result<Vec<String>, SystemError> { Err(SystemError::NotImplemented) }
        fn rename(&mut self, _from : &str, _to : &str) -> Result<(), SystemError> { Err(SystemError::NotImplemented) }
        fn get_modified(&self, _path : &str) -> Result<SystemTime, SystemError> { Err(SystemError::NotImplemented) }
        fn is_executable(&self, _path : &str) -> Result<bool, SystemError> { Err(SystemError::NotImplemented) }
        fn set_is_executable(&mut self, _path : &str, _e : bool) -> Result<(), SystemError> { Err(SystemError::NotImplemented) }
        fn execute_command(&mut self, _c : CommandScript) -> Vec<Result<CommandLineOutput, SystemError>> { Vec::new() }
    }

    fn from_file_chunks(nmax : usize, minchunk : usize)
    {
        let n : usize = kani::any();
        kani::assume(n <= nmax);
        let j : usize = kani::any();
        kani::assume(j < nmax);
        let cj : u8 = kani::any();
        let exists : bool = kani::any();
        let fail_at : usize = kani::any();
        unsafe
        {
            N = n; POS = 0; J = j; CJ = cj; READS = 0; MINCHUNK = minchunk; EXISTS = exists; FAIL_AT = fail_at;
            crypto::MONITOR = true;
            crypto::MON_J = j;
            crypto::MON_CJ = cj;
        }
        let r = TicketFactory::from_file(&ChunkSys {}, "p");
        unsafe
        {
            assert!(OPENED == 1, "[C15] from_file does not open the file exactly once");
            match r
            {
                Ok(f) =>
                {
                    kani::cover!(n > 256 || nmax <= 256, "a file longer than the read buffer");
                    kani::cover!(READS >= 3, "several short reads");
                    assert!(exists, "[C15] a hash was produced for a file that cannot be opened");
                    assert!(FAIL_AT >= READS, "[C15] a read error was swallowed and a hash produced");
                    assert!(crypto::MON_OFF == n, "[C15] the number of bytes hashed differs from the file's length");
                    assert!(!crypto::MON_BAD, "[C15] a byte fed to the hash differs from the file's byte at that offset");
                    assert!(j >= n || crypto::MON_SEEN, "[C15] a byte of the file never reached the hash");
                    std::mem::forget(f);
                },
                Err(e) =>
                {
                    kani::cover!(true, "error path");
                    assert!(!exists || FAIL_AT < READS, "[C15] hashing a readable file failed");
                    std::mem::forget(e);
                },
            }
        }
    }

    #[kani::proof]
    #[kani::unwind(43)]
    #[kani::stub(alloc::fmt::format, crate::stubs::format_empty_stub)]
    fn file_chunks_40()
    {
        from_file_chunks(40, 1);
    }

    #[kani::proof]
    #[kani::unwind(19)]
    #[kani::stub(alloc::fmt::format, crate::stubs::format_empty_stub)]
    fn file_chunks_16()
    {
        from_file_chunks(16, 1);
    }

    /*  Straddles the 256-byte buffer twice; every read returns at least 64
        bytes unless fewer remain (<= 10 reads). */
    #[kani::proof]
    #[kani::unwind(12)]
    #[kani::stub(alloc::fmt::format, crate::stubs::format_empty_stub)]
    fn file_chunks_520()
    {
        from_file_chunks(520, 64);
    }
}
