
/*  C12: the real topological_sort / topological_sort_all on symbolic rule sets
    of up to 3 rules against an independent oracle (shared/sortcase.rs). */
#[cfg(kani)]
pub mod verif_dag
{
    use super::*;
    use crate::sortcase::{self, CaseD, RuleD, Expect, NR};
    use crate::prestate::Raw;
    use std::clone::Clone;
    use std::cmp::{PartialEq, PartialOrd, Ord};

    /*  (pushed as a byte: String::push(char) on a symbolic char drags in the UTF-8 encoder) */
    fn one(c : u8) -> String
    {
        let mut v : Vec<u8> = Vec::with_capacity(1);
        v.push(c);
        unsafe { String::from_utf8_unchecked(v) }
    }

    fn mk_rule(r : &RuleD) -> Rule
    {
        let mut t = Vec::with_capacity(2);
        t.push(one(r.t[0]));
        if r.nt == 2 { t.push(one(r.t[1])); }
        let mut s = Vec::with_capacity(2);
        if r.ns >= 1 { s.push(one(r.s[0])); }
        if r.ns >= 2 { s.push(one(r.s[1])); }
        let mut c = Vec::with_capacity(1);
        c.push(one(b'x'));
        Rule { targets : t, sources : s, command : c }
    }

    fn mk_rules(c : &CaseD) -> Vec<Rule>
    {
        let o = sortcase::input_order(c);
        let mut v = Vec::with_capacity(NR);
        let mut k = 0;
        while k < NR
        {
            if k < c.n { v.push(mk_rule(&c.rules[o[k]])); }
            k += 1;
        }
        v
    }

    fn first_byte(s : &String) -> u8
    {
        let b = s.as_bytes();
        if b.len() == 1 { b[0] } else { 0 }
    }

    fn sorted2(n : usize, a : [u8; 2]) -> [u8; 2]
    {
        if n == 2 && a[0] > a[1] { [a[1], a[0]] } else { a }
    }

    pub fn check(c : &CaseD, r : Result<NodePack, TopologicalSortError>)
    {
        let exp = sortcase::expected(c);
        match r
        {
            Err(TopologicalSortError::TargetInMultipleRules(name)) =>
            {
                kani::cover!(true, "duplicate target reported");
                assert!(exp == Expect::DuplicateTarget, "[C12] 'target in multiple rules' reported although every path is a target of at most one rule");
                std::mem::forget(name);
            },
            Err(TopologicalSortError::TargetMissing(name)) =>
            {
                kani::cover!(true, "missing goal reported");
                assert!(exp == Expect::GoalMissing, "[C12] 'target missing' reported although the goal is some rule's target (or no goal was given)");
                assert!(Some(first_byte(&name)) == c.goal, "[C12] 'target missing' does not name the goal");
                std::mem::forget(name);
            },
            Err(TopologicalSortError::SelfDependentRule(name)) =>
            {
                kani::cover!(true, "self-dependence reported");
                match exp
                {
                    Expect::Cycle { self_dep, longer : _ } => assert!(self_dep, "[C12] self-dependence reported but no reachable rule lists its own target as a source"),
                    _ => assert!(false, "[C12] self-dependence reported for a rule set that has none in scope (or has another defect that takes precedence)"),
                }
                std::mem::forget(name);
            },
            Err(TopologicalSortError::CircularDependence(cycle)) =>
            {
                kani::cover!(true, "cycle reported");
                match exp
                {
                    Expect::Cycle { self_dep : _, longer } => assert!(longer, "[C12] circular dependence reported but the only cycle in scope is a rule depending on itself"),
                    _ => assert!(false, "[C12] circular dependence reported for an acyclic rule set"),
                }
                std::mem::forget(cycle);
            },
            Ok(pack) =>
            {
                kani::cover!(pack.nodes.len() == 3, "a plan with three rules");
                let in_plan = match exp
                {
                    Expect::Plan { in_plan } => in_plan,
                    Expect::DuplicateTarget => { assert!(false, "[C12] a path is the target of two rules but the rule set was accepted"); return; },
                    Expect::GoalMissing => { assert!(false, "[C12] the goal is no rule's target but the rule set was accepted"); return; },
                    Expect::Cycle { .. } => { assert!(false, "[C12] a dependency cycle is reachable but the rule set was accepted"); return; },
                };
                let mut want = 0;
                let mut i = 0;
                while i < NR { if in_plan[i] { want += 1; } i += 1; }
                assert!(pack.nodes.len() == want, "[C12][C09] the plan does not contain exactly the goal's rule and its transitive prerequisites (or all rules)");
                let mut seen = [false; NR];
                let mut pos_of = [usize::MAX; NR];
                let mut p = 0;
                while p < pack.nodes.len() && p < NR
                {
                    let node = &pack.nodes[p];
                    assert!(node.targets.len() >= 1, "[C12] a plan entry without targets");
                    let ridx = match sortcase::producer(c, first_byte(&node.targets[0]))
                    {
                        Some(i) => i,
                        None => { assert!(false, "[C12] a plan entry's target is no rule's target"); return; },
                    };
                    assert!(in_plan[ridx], "[C12][C09] the plan contains a rule the goal does not depend on");
                    assert!(!seen[ridx], "[C12] a rule appears twice in the plan");
                    seen[ridx] = true;
                    pos_of[ridx] = p;
                    let rule = &c.rules[ridx];
                    let st = sorted2(rule.nt, rule.t);
                    assert!(node.targets.len() == rule.nt && first_byte(&node.targets[0]) == st[0] && (rule.nt < 2 || first_byte(&node.targets[1]) == st[1]),
                        "[C12][C02] a plan entry's targets are not the rule's targets in canonical (sorted) order");
                    let ss = sorted2(rule.ns, rule.s);
                    assert!(node.source_indices.len() == rule.ns, "[C12] a plan entry does not bind every source of its rule exactly once");
                    let mut q = 0;
                    while q < rule.ns && q < node.source_indices.len()
                    {
                        let name = ss[q];
                        match (&node.source_indices[q], sortcase::producer(c, name))
                        {
                            (SourceIndex::Pair(i, sub), Some(j)) =>
                            {
                                assert!(*i < p, "[C12][C03] a rule is placed before (or at) a rule producing one of its sources");
                                if *i < pack.nodes.len()
                                {
                                    let prod = &pack.nodes[*i];
                                    assert!(*sub < prod.targets.len() && first_byte(&prod.targets[*sub]) == name,
                                        "[C12][C03][C01] a source is bound to the wrong producing rule or the wrong one of its targets");
                                }
                                let _ = j;
                            },
                            (SourceIndex::Leaf(l), None) =>
                            {
                                assert!(*l < pack.leaves.len() && first_byte(&pack.leaves[*l]) == name, "[C12] a leaf source is bound to the wrong leaf");
                            },
                            (SourceIndex::Leaf(_), Some(_)) => assert!(false, "[C12][C03] a source that some rule produces is treated as a plain file"),
                            (SourceIndex::Pair(_, _), None) => assert!(false, "[C12] a plain source file is bound to a rule"),
                        }
                        q += 1;
                    }
                    p += 1;
                }
                /*  leaves: sorted, unique, each a non-target source of a rule in the plan */
                let mut l = 0;
                while l < pack.leaves.len() && l < 2 * NR
                {
                    let name = first_byte(&pack.leaves[l]);
                    assert!(sortcase::producer(c, name).is_none(), "[C12] a rule's target is listed as a leaf");
                    if l > 0 { assert!(first_byte(&pack.leaves[l - 1]) < name, "[C12] leaves are not in canonical order or repeat"); }
                    let mut used = false;
                    let mut i = 0;
                    while i < NR
                    {
                        if in_plan[i] && ((c.rules[i].ns >= 1 && c.rules[i].s[0] == name) || (c.rules[i].ns >= 2 && c.rules[i].s[1] == name)) { used = true; }
                        i += 1;
                    }
                    assert!(used, "[C12][C09] a leaf in the plan is not a source of any rule in scope");
                    l += 1;
                }
                std::mem::forget(pack);
            },
        }
    }

    fn run(c : &CaseD) -> Result<NodePack, TopologicalSortError>
    {
        let rules = mk_rules(c);
        match c.goal
        {
            Some(g) =>
            {
                let gs = one(g);
                let r = topological_sort(rules, &gs);
                std::mem::forget(gs);
                r
            },
            None => topological_sort_all(rules),
        }
    }

    macro_rules! sort_harness
    {
        ($name:ident, $unwind:literal, $body:block) =>
        {
            #[kani::proof]
            #[kani::unwind($unwind)]
            #[kani::stub(alloc::alloc::dealloc, crate::stubs::dealloc_noop)]
            #[kani::stub(alloc::fmt::format, crate::stubs::format_empty_stub)]
            #[kani::stub(<std::string::String as Clone>::clone, crate::stubs::string_clone_short)]
            #[kani::stub(<crate::ticket::Ticket as PartialEq>::eq, crate::ticket::verif_eq::ticket_eq_words)]
            #[kani::stub(crate::rule::Rule::get_ticket, crate::sort::verif_dag::rule_ticket_const)]
            fn $name() $body
        };
    }

    /*  rule identity is irrelevant to ordering (and is C13's subject) */
    pub fn rule_ticket_const(_r : &Rule) -> Ticket
    {
        crate::ticket::verif::ticket_foreign(42)
    }

    fn sort_case(two : bool, n : usize, ns : Option<usize>)
    {
        let mut raw = Raw { bytes : kani::any(), pos : 0 };
        let c = sortcase::decode(&mut raw, two, Some(n), ns);
        let r = run(&c);
        check(&c, r);
    }

    fn sort_case_ft(two : bool, n : usize, ns : usize)
    {
        let mut raw = Raw { bytes : kani::any(), pos : 0 };
        let c = sortcase::decode_ex(&mut raw, two, Some(n), Some(ns), true);
        let r = run(&c);
        check(&c, r);
    }

    /*  rules a, b, c given in sorted order (what rules_to_frame_buffer establishes), edges symbolic */
    sort_harness!(sort_dag_3_s2_ft, 7, { sort_case_ft(false, 3, 2); });
    sort_harness!(sort_dag_3_s1_ft, 7, { sort_case_ft(false, 3, 1); });
    sort_harness!(sort_dag_3_s2_ft_two_targets, 7, { sort_case_ft(true, 3, 2); });

    /*  every rule has exactly two (distinct) sources: any dependency shape with at most two
        sources per rule is represented, leaf names p, q serving as padding */
    sort_harness!(sort_dag_3_s2, 7, { sort_case(false, 3, Some(2)); });
    sort_harness!(sort_dag_2_s2, 7, { sort_case(false, 2, Some(2)); });
    sort_harness!(sort_dag_3_s1, 7, { sort_case(false, 3, Some(1)); });
    sort_harness!(sort_dag_3_s2_two_targets, 7, { sort_case(true, 3, Some(2)); });
    sort_harness!(sort_dag_2, 7, { sort_case(false, 2, None); });
}
