
/*  PROTOCOL HARNESS (DESIGN 3.1): the real build() -- ChannelPack::new, both
    spawn loops and both closure bodies, wait_for_sources_ticket, the join loop,
    banner selection, error collection, history write-back -- over the
    sequentialising thread/mpsc shim with Kahn monitors (kani/src/vstd.rs).
    Its neighbours are recording models: directory::init, get_nodes (returns the
    symbolic plan), handle_source_only_node / handle_rule_node (symbolic
    outcome; assert what they are handed), History::{read,write}_rule_history,
    CurrentFileStates::to_file.  take_blob / insert_blob run for real on an
    empty table. */
#[cfg(kani)]
pub mod verif_proto
{
    use super::*;
    use crate::symsys::SymSystem;
    use crate::ticket::verif::*;
    use crate::blob::{Blob, FileState, FileStateVec};
    use crate::history::{RuleHistory, History};
    use crate::current::CurrentFileStates;
    use crate::directory::{Elements, InitDirectoryError};
    use crate::cache::SysCache;
    use crate::system::CommandLineOutput;
    use crate::vstd::mpsc as shim;
    use std::clone::Clone;
    use std::cmp::PartialEq;

    pub const NN : usize = 3;       // rule nodes
    pub const NL : usize = 2;       // leaves

    #[derive(Clone, Copy, PartialEq, Eq)]
    pub enum Src { None, Leaf(usize), Pair(usize, usize) }

    /*  The symbolic plan and outcomes (set by the harness, read by the models). */
    pub static mut NNODES : usize = 0;
    pub static mut NLEAVES : usize = 0;
    pub static mut NT : [usize; NN] = [1; NN];                  // targets per node (1..2)
    pub static mut SRC : [[Src; 2]; NN] = [[Src::None; 2]; NN];   // sources per node, in plan order
    pub static mut LEAF_FAIL : [bool; NL] = [false; NL];
    pub static mut NODE_FAIL : [bool; NN] = [false; NN];
    pub static mut NODE_BUILT : [bool; NN] = [false; NN];        // Ok outcome is CommandExecuted (else Resolutions)
    pub static mut NODE_RES : [[u8; 2]; NN] = [[0; 2]; NN];      // per-target resolution when not built
    pub static mut HIST_ERR_AT : usize = usize::MAX;             // read_rule_history fails for this node

    /*  What happened. */
    pub static mut LEAF_ENTERED : [u8; NL] = [0; NL];
    pub static mut LEAF_DONE_OK : [bool; NL] = [false; NL];
    pub static mut NODE_ENTERED : [u8; NN] = [0; NN];
    pub static mut NODE_DONE_OK : [bool; NN] = [false; NN];
    pub static mut HIST_WRITTEN : [u8; NN] = [0; NN];
    pub static mut HIST_READ : [u8; NN] = [0; NN];
    pub static mut TABLE_WRITES : usize = 0;
    pub static mut M_C03_EARLY : bool = false;       // a rule was handled before one of its producers had finished successfully
    pub static mut M_C01_SOURCES_HASH : bool = false; // sources hash handed to a rule is not H*(its sources' hashes in plan order)
    pub static mut M_C09_BLOB : bool = false;        // a thread was handed targets other than its own node's
    pub static mut M_ARGS : bool = false;            // rule handled with a command / history that is not its own
    pub static mut M_UNKNOWN : bool = false;         // a model could not tell which node it was called for
    pub static mut BANNERS : [[u8; 2]; NN] = [[0; 2]; NN];       // count of banners per (node, target)
    pub static mut BANNER_KIND : [[u8; 2]; NN] = [[9; 2]; NN];   // last banner kind: 0 up-to-date 1 recovered 2 downloaded 3 outdated 4 built
    pub static mut BANNER_OTHER : usize = 0;         // banners for paths that are no node's target
    pub static mut ERR_PRINTS : usize = 0;

    pub fn target_path(k : usize, s : usize) -> u8 { b'a' + (2 * k + s) as u8 }
    pub fn leaf_path(j : usize) -> u8 { b'p' + j as u8 }

    pub fn t_node(k : usize, s : usize) -> Ticket
    {
        let mut sha = [0u8; 32];
        sha[0] = 3; sha[1] = k as u8; sha[2] = s as u8;
        ticket_from_bytes(sha)
    }
    pub fn t_leaf(j : usize) -> Ticket
    {
        let mut sha = [0u8; 32];
        sha[0] = 4; sha[1] = j as u8;
        ticket_from_bytes(sha)
    }
    pub fn t_rule(k : usize) -> Ticket
    {
        let mut sha = [0u8; 32];
        sha[0] = 5; sha[1] = k as u8;
        ticket_from_bytes(sha)
    }

    fn one(c : u8) -> String
    {
        let mut s = String::with_capacity(1);
        s.push(c as char);
        s
    }

    /*  ---- models ---------------------------------------------------------- */

    pub fn init_model<SystemType : System>(system : &mut SystemType, _directory : &str)
    -> Result<Elements<SystemType>, InitDirectoryError>
    {
        Ok(Elements
        {
            current_file_states : crate::current::verif::empty_table(system.clone()),
            cache : SysCache::new(system.clone(), "#"),
            history : History::new(system.clone(), "h"),
        })
    }

    /*  no urls file is given in these harnesses; the toml parser is not part of any property */
    pub fn urls_model<SystemType : System>(_system : &SystemType, _path_str : &str) -> Result<DownloadUrls, DownloadUrlsError>
    {
        Ok(DownloadUrls::new())
    }

    pub fn get_nodes_model<SystemType : System>(_system : &SystemType, _rulefile_paths : Vec<String>, _goal : Option<String>)
    -> Result<NodePack, BuildError>
    {
        unsafe
        {
            let mut leaves = Vec::with_capacity(NL);
            let mut j = 0;
            while j < NLEAVES { leaves.push(one(leaf_path(j))); j += 1; }
            let mut nodes = Vec::with_capacity(NN);
            let mut k = 0;
            while k < NNODES
            {
                let mut targets = Vec::with_capacity(2);
                targets.push(one(target_path(k, 0)));
                if NT[k] == 2 { targets.push(one(target_path(k, 1))); }
                let mut si = Vec::with_capacity(2);
                let mut q = 0;
                while q < 2
                {
                    match SRC[k][q]
                    {
                        Src::None => {},
                        Src::Leaf(j) => si.push(SourceIndex::Leaf(j)),
                        Src::Pair(i, s) => si.push(SourceIndex::Pair(i, s)),
                    }
                    q += 1;
                }
                let mut command = Vec::with_capacity(1);
                command.push(one(b'0' + k as u8));
                nodes.push(Node { targets : targets, source_indices : si, command : command, rule_ticket : t_rule(k) });
                k += 1;
            }
            Ok(NodePack { leaves : leaves, nodes : nodes })
        }
    }

    pub fn leaf_model<SystemType : System>(_system : SystemType, blob : Blob) -> Result<WorkResult, WorkError>
    {
        unsafe
        {
            let n = crate::blob::verif::blob_len(&blob);
            let c = if n == 1 { crate::blob::verif::blob_path(&blob, 0).as_bytes()[0] } else { 0 };
            if n != 1 || c < b'p' || (c - b'p') as usize >= NLEAVES
            {
                M_UNKNOWN = true;
                M_C09_BLOB = true;
                return Err(WorkError::Weird);
            }
            let j = (c - b'p') as usize;
            LEAF_ENTERED[j] += 1;
            if LEAF_FAIL[j]
            {
                std::mem::forget(blob);
                return Err(WorkError::FileNotFound(one(c)));
            }
            LEAF_DONE_OK[j] = true;
            Ok(WorkResult { file_state_vec : crate::blob::verif::fsv1(t_leaf(j)), blob : blob, work_option : WorkOption::SourceOnly, rule_history : None })
        }
    }

    fn resolution(k : u8) -> FileResolution
    {
        match k { 0 => FileResolution::AlreadyCorrect, 1 => FileResolution::Recovered, 2 => FileResolution::Downloaded, _ => FileResolution::NeedsRebuild }
    }

    pub fn node_model<SystemType : System>(info : HandleNodeInfo<SystemType>, rule_ext : RuleExt<SystemType>) -> Result<WorkResult, WorkError>
    {
        unsafe
        {
            let n = crate::blob::verif::blob_len(&info.blob);
            let c = if n >= 1 { crate::blob::verif::blob_path(&info.blob, 0).as_bytes()[0] } else { 0 };
            if n == 0 || c < b'a' || ((c - b'a') as usize) % 2 != 0 || ((c - b'a') as usize) / 2 >= NNODES
            {
                M_UNKNOWN = true;
                M_C09_BLOB = true;
                return Err(WorkError::Weird);
            }
            let k = ((c - b'a') as usize) / 2;
            NODE_ENTERED[k] += 1;
            /*  C09: exactly this node's targets, in order */
            if n != NT[k] { M_C09_BLOB = true; }
            if n == 2 && crate::blob::verif::blob_path(&info.blob, 1).as_bytes()[0] != target_path(k, 1) { M_C09_BLOB = true; }
            /*  own command, own (freshly read) history */
            if !(rule_ext.command.len() == 1 && rule_ext.command[0].as_bytes()[0] == b'0' + k as u8) { M_ARGS = true; }
            /*  C03: every producer finished successfully BEFORE this rule is handled;
                C01: the sources hash is H*(hashes of the right targets, in plan order) */
            let mut expect = [0u8; 32];
            let mut ns = 0usize;
            let mut q = 0;
            while q < 2
            {
                match SRC[k][q]
                {
                    Src::None => {},
                    Src::Leaf(j) =>
                    {
                        if !LEAF_DONE_OK[j] { M_C03_EARLY = true; }
                        expect[1 + 4 * ns] = 4; expect[2 + 4 * ns] = j as u8;
                        ns += 1;
                    },
                    Src::Pair(i, s) =>
                    {
                        if !NODE_DONE_OK[i] { M_C03_EARLY = true; }
                        expect[1 + 4 * ns] = 3; expect[2 + 4 * ns] = i as u8; expect[3 + 4 * ns] = s as u8;
                        ns += 1;
                    },
                }
                q += 1;
            }
            expect[0] = if ns == 0 { 0 } else { 0x80 | ns as u8 };
            let got = sha_of(&rule_ext.sources_ticket);
            let mut b = 0;
            while b < 9
            {
                if got[b] != expect[b] { M_C01_SOURCES_HASH = true; }
                b += 1;
            }
            if NODE_FAIL[k]
            {
                std::mem::forget(info);
                std::mem::forget(rule_ext);
                return Err(WorkError::CommandExecutedButErrored);
            }
            NODE_DONE_OK[k] = true;
            let mut infos = Vec::with_capacity(2);
            infos.push(t_node(k, 0));
            if NT[k] == 2 { infos.push(t_node(k, 1)); }
            let work_option = if NODE_BUILT[k]
            {
                WorkOption::CommandExecuted(CommandLineOutput { out : String::new(), err : String::new(), code : Some(0), success : true })
            }
            else
            {
                let mut v = Vec::with_capacity(2);
                v.push(resolution(NODE_RES[k][0]));
                if NT[k] == 2 { v.push(resolution(NODE_RES[k][1])); }
                WorkOption::Resolutions(v)
            };
            Ok(WorkResult
            {
                file_state_vec : crate::blob::verif::fsv_of(infos),
                blob : info.blob,
                work_option : work_option,
                rule_history : Some(rule_ext.rule_history),
            })
        }
    }

    fn rule_index(t : &Ticket) -> Option<usize>
    {
        let s = sha_of(t);
        if s[0] == 5 && (s[1] as usize) < NN { Some(s[1] as usize) } else { None }
    }

    pub fn read_history_model<SystemType : System>(_h : &History<SystemType>, rule_ticket : &Ticket) -> Result<RuleHistory, HistoryError>
    {
        unsafe
        {
            match rule_index(rule_ticket)
            {
                Some(k) =>
                {
                    HIST_READ[k] += 1;
                    if HIST_ERR_AT == k
                    {
                        return Err(HistoryError::CannotInterpretRuleHistoryFile(String::new()));
                    }
                },
                None => { M_UNKNOWN = true; },
            }
            Ok(RuleHistory::new())
        }
    }

    pub fn write_history_model<SystemType : System>(_h : &mut History<SystemType>, rule_ticket : Ticket, rule_history : RuleHistory) -> Result<(), HistoryError>
    {
        unsafe
        {
            match rule_index(&rule_ticket)
            {
                Some(k) => { HIST_WRITTEN[k] += 1; },
                None => { M_UNKNOWN = true; },
            }
        }
        std::mem::forget(rule_history);
        Ok(())
    }

    pub fn to_file_model<SystemType : System>(_t : &mut CurrentFileStates<SystemType>) -> Result<(), crate::current::CurrentFileStatesError>
    {
        unsafe { TABLE_WRITES += 1; }
        Ok(())
    }

    pub struct RecPrinter {}

    impl Printer for RecPrinter
    {
        fn print_single_banner_line(&mut self, banner_text : &str, _banner_color : Color, path : &str)
        {
            unsafe
            {
                let t = banner_text.as_bytes();
                /*  "Up-to-date" " Recovered" "Downloaded" "  Outdated" "     Built": told apart by their last two bytes */
                let kind = if t.len() != 10 { 8 }
                    else if t[8] == b't' && t[9] == b'e' { 0 }     // Up-to-daTE
                    else if t[7] == b'r' && t[8] == b'e' && t[9] == b'd' && t[1] == b'R' { 1 }   // RecoveRED
                    else if t[0] == b'D' { 2 }
                    else if t[2] == b'O' { 3 }
                    else if t[5] == b'B' { 4 }
                    else { 8 };
                let p = path.as_bytes();
                if p.len() == 1 && p[0] >= b'a' && ((p[0] - b'a') as usize) < 2 * NN
                {
                    let k = ((p[0] - b'a') as usize) / 2;
                    let s = ((p[0] - b'a') as usize) % 2;
                    BANNERS[k][s] += 1;
                    BANNER_KIND[k][s] = kind;
                }
                else
                {
                    BANNER_OTHER += 1;
                }
            }
        }
        fn print(&mut self, _text : &str) {}
        fn error(&mut self, _text : &str) { unsafe { ERR_PRINTS += 1; } }
    }

    /*  ---- the plans ---------------------------------------------------------
        Shapes are concrete (which rule feeds which, how many targets each has):
        a plan with symbolic producer indices gives every channel vector a
        symbolic length, which CBMC cannot digest.  Symbolic within a shape:
        WHICH target of a two-target producer each edge carries (the sub-index),
        which rules fail, which leaves are missing, and every reported outcome. */
    #[derive(Clone, Copy)]
    pub enum Spec { No, L(usize), P(usize) }

    fn setup(nnodes : usize, nleaves : usize, nt : [usize; NN], spec : [[Spec; 2]; NN])
    {
        unsafe
        {
            NNODES = nnodes;
            NLEAVES = nleaves;
            NT = nt;
            let mut k = 0;
            while k < nnodes
            {
                let mut q = 0;
                while q < 2
                {
                    SRC[k][q] = match spec[k][q]
                    {
                        Spec::No => Src::None,
                        Spec::L(j) => Src::Leaf(j),
                        Spec::P(i) =>
                        {
                            /*  what C12 guarantees about a plan: producers come earlier, sub-index in range */
                            let s : usize = if nt[i] == 2 { let two : bool = kani::any(); if two { 1 } else { 0 } } else { 0 };
                            Src::Pair(i, s)
                        },
                    };
                    q += 1;
                }
                NODE_FAIL[k] = kani::any();
                NODE_BUILT[k] = kani::any();
                let r0 : u8 = kani::any();
                let r1 : u8 = kani::any();
                kani::assume(r0 < 3 && r1 < 3);
                NODE_RES[k] = [r0, r1];
                k += 1;
            }
            let mut j = 0;
            while j < nleaves
            {
                LEAF_FAIL[j] = kani::any();
                j += 1;
            }
        }
    }

    fn params() -> BuildParams
    {
        let mut rf = Vec::with_capacity(1);
        rf.push(one(b'r'));
        BuildParams { directory_path : one(b'.'), rulefile_paths : rf, urlfile_path_opt : None, goal_target_opt : None }
    }

    /*  direct producers all finished successfully? */
    fn producers_ok(k : usize) -> bool
    {
        unsafe
        {
            let mut ok = true;
            let mut q = 0;
            while q < 2
            {
                match SRC[k][q]
                {
                    Src::None => {},
                    Src::Leaf(j) => if !LEAF_DONE_OK[j] { ok = false; },
                    Src::Pair(i, _) => if !NODE_DONE_OK[i] { ok = false; },
                }
                q += 1;
            }
            ok
        }
    }

    fn check_build(nnodes : usize, nleaves : usize, nt : [usize; NN], spec : [[Spec; 2]; NN])
    {
        setup(nnodes, nleaves, nt, spec);
        let mut printer = RecPrinter {};
        let r = build(SymSystem {}, &mut printer, params());
        unsafe
        {
            /*  C05 */
            assert!(!shim::K_SEND_TWICE, "[C05] more than one packet was sent on one edge");
            assert!(!shim::K_SENDER_DROPPED_UNSENT, "[C05][C04] a thread ended without sending hash or cancel on one of its outgoing edges (its dependent would wait forever or see a hang-up)");
            assert!(!shim::K_RECEIVER_DROPPED_EARLY, "[C05] a dependent stopped listening before all of its sources had reported (a late send would fail in some schedule)");
            assert!(!shim::K_SEND_AFTER_HANGUP, "[C05] a packet was sent to a dependent that had already gone");
            assert!(!shim::K_RECV_WOULD_BLOCK, "[C05][C03] a rule waits on a producer that is started after it (deadlock in every schedule)");
            assert!(!shim::K_RECV_HANGUP, "[C05] a rule found the channel from a producer closed without a packet");
            assert!(shim::SPAWNED == nnodes + nleaves && shim::FINISHED == shim::SPAWNED, "[C05][C09] not exactly one thread per leaf and per rule in the plan");
            assert!(!M_UNKNOWN, "[C09] a worker was started for something that is not a leaf or rule of the plan");
            /*  C03 / C01 / C09 */
            assert!(!M_C03_EARLY, "[C03] a rule was handled before every rule producing its sources had finished successfully");
            assert!(!M_C01_SOURCES_HASH, "[C01][C03][C02] the sources hash given to a rule is not the hash of its sources' hashes (right target of each producer, plan order)");
            assert!(!M_C09_BLOB, "[C09][C20] a rule thread was handed targets other than exactly its own");
            assert!(!M_ARGS, "[C01] a rule was handled with another rule's command");
            let mut nfailed = 0usize;
            let mut k = 0;
            while k < nnodes
            {
                assert!(NODE_ENTERED[k] <= 1, "[C02] a rule was handled more than once in one build");
                assert!(HIST_READ[k] == 1, "[C01] a rule's history was not read exactly once");
                /*  C04: handled iff no direct producer failed or was cancelled (transitively: by induction over the plan) */
                if producers_ok(k)
                {
                    assert!(NODE_ENTERED[k] == 1, "[C04][C01] a rule none of whose producers failed was not brought up to date");
                }
                else
                {
                    assert!(NODE_ENTERED[k] == 0, "[C04][C03] a rule ran although one of its producers failed or was cancelled");
                }
                if NODE_ENTERED[k] == 1 && NODE_FAIL[k] { nfailed += 1; }
                /*  C04 / C02: history persisted exactly for finished rules */
                if NODE_DONE_OK[k]
                {
                    assert!(HIST_WRITTEN[k] == 1, "[C02][C01] the history of a finished rule was not written back exactly once");
                }
                else
                {
                    assert!(HIST_WRITTEN[k] == 0, "[C04] history was recorded for a rule that failed or did not run");
                }
                /*  C20: one truthful status per target of a finished rule, none otherwise */
                let mut s = 0;
                while s < 2
                {
                    if NODE_DONE_OK[k] && s < NT[k]
                    {
                        assert!(BANNERS[k][s] == 1, "[C20] not exactly one status line for a target of a finished rule");
                        if NODE_BUILT[k]
                        {
                            assert!(BANNER_KIND[k][s] == 4, "[C20] the command ran but the target is not reported as 'Built'");
                        }
                        else
                        {
                            assert!(BANNER_KIND[k][s] == NODE_RES[k][s], "[C20] the status shown for a target is not that target's resolution");
                        }
                    }
                    else
                    {
                        assert!(BANNERS[k][s] == 0, "[C20] a status line was printed for a target of a failed or cancelled rule (or for no target)");
                    }
                    s += 1;
                }
                k += 1;
            }
            let mut j = 0;
            while j < nleaves
            {
                assert!(LEAF_ENTERED[j] == 1, "[C01][C04] a source file was not examined exactly once");
                if LEAF_FAIL[j] { nfailed += 1; }
                j += 1;
            }
            assert!(BANNER_OTHER == 0, "[C20] a status line names a path that is no rule's target");
            assert!(TABLE_WRITES == 1, "[C18][C02] the file-state table was not written exactly once at the end of the build");
            match r
            {
                Ok(()) =>
                {
                    kani::cover!(nnodes >= 2, "build succeeds");
                    assert!(nfailed == 0, "[C04] the build reported success although a rule failed or a source file is missing");
                },
                Err(BuildError::WorkErrors(v)) =>
                {
                    kani::cover!(true, "build reports failures");
                    kani::cover!(nfailed >= 2, "several failures at once");
                    assert!(nfailed > 0, "[C04] the build reported failure although nothing failed");
                    assert!(v.len() == nfailed, "[C04][C20] not exactly one error per failed rule or missing source file");
                    std::mem::forget(v);
                },
                Err(e) =>
                {
                    assert!(false, "[C05] build ended with an internal error (send/receive/weird) instead of success or the list of failed rules");
                    std::mem::forget(e);
                },
            }
        }
    }

    macro_rules! proto_harness
    {
        ($name:ident, $unwind:literal, $body:block) =>
        {
            #[kani::proof]
            #[kani::unwind($unwind)]
            #[kani::stub(alloc::fmt::format, crate::stubs::format_empty_stub)]
            #[kani::stub(<crate::ticket::Ticket as PartialEq>::eq, crate::ticket::verif_eq::ticket_eq_words)]
            #[kani::stub(alloc::alloc::dealloc, crate::stubs::dealloc_noop)]
            #[kani::stub(<std::string::String as Clone>::clone, crate::stubs::string_clone_short)]
            #[kani::stub(crate::directory::init, crate::build::verif_proto::init_model)]
            #[kani::stub(crate::build::get_nodes, crate::build::verif_proto::get_nodes_model)]
            #[kani::stub(crate::build::read_download_urls, crate::build::verif_proto::urls_model)]
            #[kani::stub(crate::work::handle_source_only_node, crate::build::verif_proto::leaf_model)]
            #[kani::stub(crate::work::handle_rule_node, crate::build::verif_proto::node_model)]
            #[kani::stub(crate::history::History::read_rule_history, crate::build::verif_proto::read_history_model)]
            #[kani::stub(crate::history::History::write_rule_history, crate::build::verif_proto::write_history_model)]
            #[kani::stub(crate::current::CurrentFileStates::to_file, crate::build::verif_proto::to_file_model)]
            fn $name() $body
        };
    }

    /*  leaf p -> rule0 {a} */
    proto_harness!(proto_build_min, 4, {
        check_build(1, 1, [1, 1, 1], [[Spec::L(0), Spec::No], [Spec::No, Spec::No], [Spec::No, Spec::No]]);
    });
    /*  leaf p -> rule0 {a,b} -> rule1 {c} (one of a/b) */
    proto_harness!(proto_build_chain2, 4, {
        check_build(2, 1, [2, 1, 1], [[Spec::L(0), Spec::No], [Spec::P(0), Spec::No], [Spec::No, Spec::No]]);
    });
    /*  diamond with leaves: p -> rule0 {a,b}; rule1 {c} <- (a|b), q; rule2 {e} <- (a|b), c */
    proto_harness!(proto_build_diamond, 4, {
        check_build(3, 2, [2, 1, 1], [[Spec::L(0), Spec::No], [Spec::P(0), Spec::L(1)], [Spec::P(0), Spec::P(1)]]);
    });
    /*  fan-in of independent rules: rule0 {a} <- p; rule1 {c,d} <- q; rule2 {e} <- a, (c|d) */
    proto_harness!(proto_build_fanin, 4, {
        check_build(3, 2, [1, 2, 1], [[Spec::L(0), Spec::No], [Spec::L(1), Spec::No], [Spec::P(0), Spec::P(1)]]);
    });
}
