
/*  C11 (state files): the real History::write_rule_history killed at any point
    -- after the file was created/truncated, or after any strict prefix of the
    bytes was written -- followed by the real read_rule_history of the next
    invocation.  bincode is a dependency and is replaced by its documented
    contract (which C16 states): `serialize` yields the file's bytes,
    `deserialize` accepts exactly a complete file and rejects every strict
    prefix (an empty file included). */
#[cfg(kani)]
pub mod verif_torn
{
    use super::*;
    use crate::system::{System, SystemError, CommandScript, CommandLineOutput};
    use crate::ticket::verif::*;
    use std::io;
    use std::time::SystemTime;
    use bincode::Options;

    pub const FULL : usize = 2;     // length of a complete state file in this model

    /*  two file slots: 0 = the state file itself, 1 = any other path in its directory (a temporary) */
    pub static mut EXISTS : [bool; 2] = [false; 2];
    pub static mut LEN : [usize; 2] = [0; 2];
    pub static mut DEAD : bool = false;          // the process has been killed: nothing reaches the disk any more
    pub static mut KILL_AT : usize = usize::MAX; // the process dies when its mutation counter reaches this value
    pub static mut MUT : usize = 0;
    pub static mut TORN : usize = 0;             // a write() that is cut short by the kill gets this many bytes through
    pub static mut FORMAT_N : usize = 0;

    fn slot(path : &str) -> usize
    {
        let b = path.as_bytes();
        if b.len() == 1 && b[0] == b'p' { 0 } else { 1 }
    }

    /*  format!: the first path built in an invocation is the state file's ("p"), further ones differ ("q") */
    pub fn format_paths(_a : core::fmt::Arguments<'_>) -> String
    {
        unsafe
        {
            FORMAT_N += 1;
            let mut v : Vec<u8> = Vec::with_capacity(1);
            v.push(if FORMAT_N == 1 { b'p' } else { b'q' });
            String::from_utf8_unchecked(v)
        }
    }

    fn step() -> bool
    {
        unsafe
        {
            if DEAD { return false; }
            if MUT >= KILL_AT { DEAD = true; return false; }
            MUT += 1;
            true
        }
    }

    #[derive(Clone)]
    pub struct TornSys {}
    #[derive(Debug)]
    pub struct TornFile { slot : usize, pos : usize }

    impl io::Read for TornFile
    {
        fn read(&mut self, buf : &mut [u8]) -> io::Result<usize>
        {
            unsafe
            {
                let remaining = LEN[self.slot] - self.pos;
                if remaining == 0 || buf.len() < FULL { return Ok(0); }
                /*  at most FULL (= 2) bytes exist; all of them in one call */
                buf[0] = 7;
                if remaining >= 2 { buf[1] = 7; }
                let k = if remaining >= 2 { 2 } else { 1 };
                self.pos += k;
                Ok(k)
            }
        }
    }

    impl io::Write for TornFile
    {
        fn write(&mut self, buf : &[u8]) -> io::Result<usize>
        {
            unsafe
            {
                if DEAD { return Err(io::Error::from(io::ErrorKind::BrokenPipe)); }
                if MUT >= KILL_AT
                {
                    /*  killed inside this write: a strict prefix got through */
                    DEAD = true;
                    let t = if TORN < buf.len() { TORN } else { 0 };
                    LEN[self.slot] += t;
                    return Err(io::Error::from(io::ErrorKind::BrokenPipe));
                }
                MUT += 1;
                LEN[self.slot] += buf.len();
                Ok(buf.len())
            }
        }
        fn flush(&mut self) -> io::Result<()> { Ok(()) }
    }

    impl System for TornSys
    {
        type File = TornFile;
        fn open(&self, path : &str) -> Result<Self::File, SystemError>
        {
            unsafe { if EXISTS[slot(path)] { Ok(TornFile { slot : slot(path), pos : 0 }) } else { Err(SystemError::NotFound) } }
        }
        fn create_file(&mut self, path : &str) -> Result<Self::File, SystemError>
        {
            if !step() { return Err(SystemError::Weird); }
            unsafe { let s = slot(path); EXISTS[s] = true; LEN[s] = 0; Ok(TornFile { slot : s, pos : 0 }) }
        }
        fn create_dir(&mut self, _path : &str) -> Result<(), SystemError> { Err(SystemError::NotImplemented) }
        fn is_dir(&self, _path : &str) -> bool { true }
        fn is_file(&self, path : &str) -> bool { unsafe { EXISTS[slot(path)] } }
        fn list_dir(&self, _path : &str) -> Result<Vec<String>, SystemError> { Err(SystemError::NotImplemented) }
        fn rename(&mut self, from : &str, to : &str) -> Result<(), SystemError>
        {
            if !step() { return Err(SystemError::Weird); }
            unsafe
            {
                let (f, t) = (slot(from), slot(to));
                if !EXISTS[f] { return Err(SystemError::RenameFromNonExistent); }
                if f != t { EXISTS[t] = true; LEN[t] = LEN[f]; EXISTS[f] = false; LEN[f] = 0; }
                Ok(())
            }
        }
        fn get_modified(&self, _path : &str) -> Result<SystemTime, SystemError> { Err(SystemError::NotImplemented) }
        fn is_executable(&self, _path : &str) -> Result<bool, SystemError> { Err(SystemError::NotImplemented) }
        fn set_is_executable(&mut self, _path : &str, _e : bool) -> Result<(), SystemError> { Err(SystemError::NotImplemented) }
        fn execute_command(&mut self, _c : CommandScript) -> Vec<Result<CommandLineOutput, SystemError>> { Vec::new() }
    }

    /*  bincode's contract */
    pub fn serialize_model<T : ?Sized>(_value : &T) -> bincode::Result<Vec<u8>>
    where T : serde::Serialize
    {
        let mut v = Vec::with_capacity(FULL);
        v.push(7u8);
        v.push(7u8);
        Ok(v)
    }

    pub fn deserialize_model<'a, T>(bytes : &'a [u8]) -> bincode::Result<T>
    where T : serde::de::Deserialize<'a>
    {
        if bytes.len() == FULL
        {
            /*  a complete file decodes; the value is immaterial here: the (real, un-stubbed) option
                chain on the constant encoding of an empty map */
            const EMPTY : [u8; 8] = [0u8; 8];
            let r : bincode::Result<T> = bincode::DefaultOptions::new().with_fixint_encoding().allow_trailing_bytes().deserialize(unsafe { std::mem::transmute::<&[u8], &'a [u8]>(&EMPTY[..]) });
            r
        }
        else
        {
            Err(Box::new(bincode::ErrorKind::SizeLimit))
        }
    }

    #[kani::proof]
    #[kani::unwind(7)]
    #[kani::stub(alloc::fmt::format, crate::history::verif_torn::format_paths)]
    #[kani::stub(alloc::alloc::dealloc, crate::stubs::dealloc_noop)]
    #[kani::stub(bincode::serialize, crate::history::verif_torn::serialize_model)]
    #[kani::stub(bincode::deserialize, crate::history::verif_torn::deserialize_model)]
    fn torn_rule_history()
    {
        /*  before: no history file for this rule yet, or a complete one from an earlier build */
        let had_file : bool = kani::any();
        let kill_at : usize = kani::any();
        let torn : usize = kani::any();
        kani::assume(torn < FULL);
        unsafe
        {
            EXISTS = [had_file, false];
            LEN = [if had_file { FULL } else { 0 }, 0];
            KILL_AT = kill_at;
            TORN = torn;
        }
        let mut h = History::new(TornSys {}, "h");
        let w = h.write_rule_history(ticket_foreign(1), RuleHistory::new());
        let killed = unsafe { DEAD };
        kani::cover!(killed && unsafe { MUT } >= 1, "killed part-way (after at least one mutation)");
        kani::cover!(!killed, "write completed");
        if !killed
        {
            assert!(w.is_ok(), "[C11][C16] recording a rule history fails on a working file system");
        }
        std::mem::forget(w);
        /*  the next invocation */
        unsafe { DEAD = false; KILL_AT = usize::MAX; FORMAT_N = 0; }
        let h2 = History::new(TornSys {}, "h");
        let r = h2.read_rule_history(&ticket_foreign(1));
        match r
        {
            Ok(rh) => { std::mem::forget(rh); },
            Err(e) =>
            {
                assert!(false, "[C11] a rule-history file left truncated or half written by a kill makes the next build fail (it is neither ignored nor replaced atomically)");
                std::mem::forget(e);
            },
        }
    }
}
