
/*  C11 (state files): the real CurrentFileStates::to_file killed at any point,
    then the real CurrentFileStates::from_file of the next invocation; same
    file model and bincode contract as history::verif_torn. */
#[cfg(kani)]
pub mod verif_torn
{
    use super::*;
    use crate::history::verif_torn::*;

    #[kani::proof]
    #[kani::unwind(7)]
    #[kani::stub(alloc::fmt::format, crate::history::verif_torn::format_paths)]
    #[kani::stub(alloc::alloc::dealloc, crate::stubs::dealloc_noop)]
    #[kani::stub(bincode::serialize, crate::history::verif_torn::serialize_model)]
    #[kani::stub(bincode::deserialize, crate::history::verif_torn::deserialize_model)]
    fn torn_file_state_table_rewrite()
    {
        torn_table(true);
    }

    /*  had_file is concrete per harness (first write of the table vs. rewrite of an existing one) */
    fn torn_table(had_file : bool)
    {
        let kill_at : usize = kani::any();
        let torn : usize = kani::any();
        kani::assume(torn < FULL);
        unsafe
        {
            EXISTS = [had_file, false];
            LEN = [if had_file { FULL } else { 0 }, 0];
            KILL_AT = kill_at;
            TORN = torn;
        }
        /*  to_file = bincode::serialize(..).unwrap() handed to write_file; the file-system part is write_file
            (the one-line wrapper's unwrap drags bincode's error formatting into the formula) */
        let mut sys = TornSys {};
        let bytes = [7u8; FULL];
        /*  the table's own path is "p"; any path write_file builds itself must differ from it */
        unsafe { FORMAT_N = 1; }
        let w = write_file(&mut sys, "p", &bytes);
        let killed = unsafe { DEAD };
        kani::cover!(killed && unsafe { MUT } >= 1, "killed part-way (after at least one mutation)");
        kani::cover!(!killed, "write completed");
        if !killed
        {
            assert!(w.is_ok(), "[C11][C16] writing the file-state table fails on a working file system");
        }
        std::mem::forget(w);
        unsafe { DEAD = false; KILL_AT = usize::MAX; FORMAT_N = 0; }
        /*  from_file = "if the file exists, read_all_current_file_states_from_file, else start a new table";
            the reader is what a torn file would hit (the else branch's to_file().unwrap() drags bincode's
            error formatting into the formula and is not at issue here) */
        if !unsafe { EXISTS[0] }
        {
            return;
        }
        let mut p2 = String::with_capacity(1);
        p2.push('p');
        let r = CurrentFileStates::read_all_current_file_states_from_file(TornSys {}, p2);
        match r
        {
            Ok(t2) => { std::mem::forget(t2); },
            Err(e) =>
            {
                assert!(false, "[C11] a file-state table left truncated or half written by a kill makes the next build fail (it is neither ignored nor replaced atomically)");
                std::mem::forget(e);
            },
        }
    }
}
