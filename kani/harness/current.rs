#[cfg(kani)]
pub mod verif
{
    use super::*;

    /*  An empty file-state table, for harness-side models of directory::init. */
    pub fn empty_table_at<SystemType : System>(system : SystemType, path : String) -> CurrentFileStates<SystemType>
    {
        CurrentFileStates::from_inside(system, path, CurrentFileStatesInside { file_states : HashMap::new() })
    }

    pub fn empty_table<SystemType : System>(system : SystemType) -> CurrentFileStates<SystemType>
    {
        CurrentFileStates::from_inside(system, String::new(), CurrentFileStatesInside { file_states : HashMap::new() })
    }
}
