#[cfg(kani)]
pub mod verif
{
    use super::*;

    /*  An empty file-state table, for harness-side models of directory::init. */
    pub fn empty_table<SystemType : System>(system : SystemType) -> CurrentFileStates<SystemType>
    {
        CurrentFileStates::from_inside(system, String::new(), CurrentFileStatesInside { file_states : HashMap::new() })
    }
}
