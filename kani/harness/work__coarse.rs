
/*  C18, coarse clock (one tick per user action or ruler invocation; files written
    in one invocation share an mtime).  Inductive step for I3c: from a state in
    which every table entry is truthful for the file at its own path (other
    files, in particular cache entries written in the same tick, may carry the
    same mtime with different content), handle_rule_node's no-rebuild path --
    resolve phase, then the re-hash of the SAME blob, which the glue harness
    shows is what handle_rule_node does -- must hand dependents the true hashes. */
#[cfg(kani)]
pub mod verif_coarse
{
    use super::*;
    use crate::symsys::*;
    use crate::fixture::*;
    use crate::prestate::{self, Clock};
    use crate::ticket::verif::*;
    use std::cmp::PartialEq;
    use std::clone::Clone;

    pub static mut REBUILD_CALLS : usize = 0;

    pub fn rebuild_not_here<SystemType : System>(
        _system : &mut SystemType,
        rule_history : RuleHistory,
        _sources_ticket : Ticket,
        command : Vec<String>,
        blob : Blob
    ) -> Result<WorkResult, WorkError>
    {
        unsafe { REBUILD_CALLS += 1; }
        std::mem::forget(rule_history);
        std::mem::forget(command);
        std::mem::forget(blob);
        Err(WorkError::Weird)
    }

    /*  The REAL handle_rule_node, rebuild_node cut off (its path is decided by step_rebuild_node_*):
        whatever handle_rule_node does between resolving and re-hashing is what runs here. */
    fn coarse_rule_norebuild(ntargets : usize)
    {
        let mut raw = any_raw();
        let pre = prestate::decode(&mut raw, ntargets, Clock::Coarse, true);
        install(&pre);
        let r = handle_rule_node(crate::work::verif::node_info(blob_of(&pre)), crate::work::verif::rule_ext(&pre, history_of(&pre)));
        match r
        {
            Ok(result) =>
            {
                let f = fs();
                kani::cover!(f.n_renames >= 1, "a target was restored from the cache and then re-hashed");
                assert!(!f.m_c07_cache_misfiled, "[C18][C07] coarse clock: a displaced target was filed in the cache under the hash of other content");
                assert!(!f.m_c08_lost, "[C18][C08] coarse clock: content present before the step is neither at a target nor in the cache");
                let mut i = 0;
                while i < ntargets
                {
                    assert!(f.ws[i].present && result.file_state_vec.get_ticket(i) == ticket_of_content(f.ws[i].content),
                        "[C18] coarse clock: the hash handed to dependents on the no-rebuild path is not the hash of the target's content (the mtime shortcut trusted a table entry that describes the file that used to be there)");
                    i += 1;
                }
                std::mem::forget(result);
            },
            Err(e) => { std::mem::forget(e); },
        }
    }

    macro_rules! coarse_harness
    {
        ($name:ident, $n:literal) =>
        {
            #[kani::proof]
            #[kani::unwind(4)]
            #[kani::stub(crate::ticket::Ticket::human_readable, crate::ticket::verif::hr_stub)]
            #[kani::stub(alloc::fmt::format, crate::stubs::format_stub)]
            #[kani::stub(crate::system::util::get_timestamp, crate::symsys::get_timestamp_stub)]
            #[kani::stub(<crate::ticket::Ticket as PartialEq>::eq, crate::ticket::verif_eq::ticket_eq_words)]
            #[kani::stub(alloc::alloc::dealloc, crate::stubs::dealloc_noop)]
            #[kani::stub(<std::string::String as Clone>::clone, crate::stubs::string_clone_short)]
            #[kani::stub(<crate::blob::FileStateVec as Clone>::clone, crate::blob::verif::fsv_clone_small)]
            #[kani::stub(crate::work::rebuild_node, crate::work::verif_coarse::rebuild_not_here)]
            fn $name() { coarse_rule_norebuild($n); }
        };
    }

    coarse_harness!(coarse_rule_norebuild_1t, 1);
    coarse_harness!(coarse_rule_norebuild_2t, 2);
}
