#[cfg(kani)]
pub mod verif
{
    use super::*;
    use crate::symsys::*;

    /*  Ticket of the file whose content id is `c` under the ideal hash. */
    pub fn ticket_of_content(c : u8) -> Ticket
    {
        let mut sha = [0u8; 32];
        if c != EMPTY
        {
            sha[0] = 1;
            sha[1] = c;
        }
        Ticket { sha : sha }
    }

    /*  A ticket that is the hash of no file content of the universe (used for
        sources tickets and "foreign" remembered hashes). */
    pub fn ticket_foreign(tag : u8) -> Ticket
    {
        let mut sha = [0u8; 32];
        sha[0] = 2;
        sha[1] = tag;
        Ticket { sha : sha }
    }

    pub fn ticket_from_bytes(sha : [u8; 32]) -> Ticket
    {
        Ticket { sha : sha }
    }

    pub fn sha_of(t : &Ticket) -> [u8; 32]
    {
        t.sha
    }

    /*  content id named by a ticket, if it is the hash of a universe content */
    pub fn content_of_ticket(t : &Ticket) -> Option<u8>
    {
        if t.sha[0] == 0
        {
            Some(EMPTY)
        }
        else if t.sha[0] == 1 && t.sha[1] < NCONTENT
        {
            Some(t.sha[1])
        }
        else
        {
            None
        }
    }

    /*  Stub for Ticket::human_readable: injective on the universe's digests,
        everything else goes to the FOREIGN slot character.  (That the real
        base-62 text form is injective is C15a's business, engine M.)
        Only bytes 0 and 1 are inspected: a digest with other non-zero bytes is
        not a universe content hash either way. */
    pub fn hr_stub(t : &Ticket) -> String
    {
        let slot : u8 = match content_of_ticket(t)
        {
            Some(c) => c,
            None => FOREIGN as u8,
        };
        unsafe
        {
            crate::stubs::LAST_HR = b'0' + slot;
            crate::stubs::HR_CALLS += 1;
        }
        let mut s = String::with_capacity(1);
        s.push((b'0' + slot) as char);
        s
    }
}

#[cfg(kani)]
pub mod verif_eq
{
    use super::*;

    /*  Exact replacement for the derived `Ticket == Ticket` (a 32-byte memcmp
        that CBMC unrolls byte by byte): four 64-bit word comparisons.  Same
        truth table, no loop. */
    pub fn ticket_eq_words(a : &Ticket, b : &Ticket) -> bool
    {
        let w = |s : &[u8; 32], k : usize| -> u64
        {
            u64::from_le_bytes([s[k], s[k+1], s[k+2], s[k+3], s[k+4], s[k+5], s[k+6], s[k+7]])
        };
        w(&a.sha, 0) == w(&b.sha, 0) && w(&a.sha, 8) == w(&b.sha, 8)
            && w(&a.sha, 16) == w(&b.sha, 16) && w(&a.sha, 24) == w(&b.sha, 24)
    }
}
