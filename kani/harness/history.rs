#[cfg(kani)]
pub mod verif
{
    use super::*;

    /*  Build a RuleHistory directly from its entries (no insert() calls: the
        harness's own set-up should not add formula). */
    pub fn history_from_entries(entries : Vec<(Ticket, FileStateVec)>) -> RuleHistory
    {
        RuleHistory { source_to_targets : HashMap { items : entries } }
    }

    pub fn history_len(h : &RuleHistory) -> usize
    {
        h.source_to_targets.len()
    }
}

#[cfg(kani)]
pub mod verif_insert_model
{
    use super::*;

    /*  Contract model of RuleHistory::insert for harnesses in which comparing two
        heap-backed FileStateVecs is beyond CBMC's memory (rebuild_node).  The
        harness says up front what the outcome must be for a CORRECT argument
        (EXPECT_*), the model asserts the argument is the expected one and
        returns that outcome.  The real insert/compare is decided on its own in
        unit_history_insert (C17a); here it is an assumed callee. */
    pub static mut CALLS : usize = 0;
    pub static mut EXPECT_SOURCE_BYTE : u8 = 0;            // sha[1] of the expected sources ticket (foreign tag)
    pub static mut EXPECT_LEN : usize = 0;
    pub static mut EXPECT_CONTENT : [u8; 2] = [0, 0];      // expected ticket i = H(content)
    pub static mut ARG_OK : bool = true;                   // arguments were the expected ones
    pub static mut HAS_ENTRY : bool = false;
    pub static mut ENTRY_CONTENT : [u8; 2] = [0, 0];

    pub fn insert_model(_h : &mut RuleHistory, source_ticket : Ticket, file_state_vec : FileStateVec)
    -> Result<(), RuleHistoryInsertError>
    {
        unsafe
        {
            CALLS += 1;
            let sha = crate::ticket::verif::sha_of(&source_ticket);
            if !(sha[0] == 2 && sha[1] == EXPECT_SOURCE_BYTE)
            {
                ARG_OK = false;
            }
            let mut i = 0;
            while i < EXPECT_LEN
            {
                let t = crate::ticket::verif::sha_of(&file_state_vec.get_ticket(i));
                let c = EXPECT_CONTENT[i];
                let ok = if c == crate::symsys::EMPTY { t[0] == 0 } else { t[0] == 1 && t[1] == c };
                if !ok
                {
                    ARG_OK = false;
                }
                i += 1;
            }
            std::mem::forget(file_state_vec);
            if !HAS_ENTRY
            {
                return Ok(());
            }
            let mut idx = Vec::with_capacity(2);
            let mut i = 0;
            while i < EXPECT_LEN
            {
                if ENTRY_CONTENT[i] != EXPECT_CONTENT[i]
                {
                    idx.push(i);
                }
                i += 1;
            }
            if idx.len() == 0 { Ok(()) } else { Err(RuleHistoryInsertError::Contradiction(idx)) }
        }
    }
}
