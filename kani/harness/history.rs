#[cfg(kani)]
pub mod verif
{
    use super::*;

    /*  Build a RuleHistory directly from its entries (no insert() calls: the
        harness's own set-up should not add formula). */
    pub fn history_from_entries(entries : Vec<(Ticket, FileStateVec)>) -> RuleHistory
    {
        RuleHistory { source_to_targets : HashMap { items : entries } }
    }

    pub fn history_len(h : &RuleHistory) -> usize
    {
        h.source_to_targets.len()
    }
}

#[cfg(kani)]
pub mod verif_insert_model
{
    use super::*;

    /*  Contract model of RuleHistory::insert for harnesses in which comparing two
        heap-backed FileStateVecs is beyond CBMC's memory (rebuild_node).  The
        harness says up front what the outcome must be for a CORRECT argument
        (EXPECT_*), the model asserts the argument is the expected one and
        returns that outcome.  The real insert/compare is decided on its own in
        unit_history_insert (C17a); here it is an assumed callee. */
    pub static mut CALLS : usize = 0;
    pub static mut EXPECT_SOURCE_BYTE : u8 = 0;            // sha[1] of the expected sources ticket (foreign tag)
    pub static mut EXPECT_LEN : usize = 0;
    pub static mut EXPECT_CONTENT : [u8; 2] = [0, 0];      // expected ticket i = H(content)
    pub static mut ARG_OK : bool = true;                   // arguments were the expected ones
    pub static mut HAS_ENTRY : bool = false;
    pub static mut ENTRY_CONTENT : [u8; 2] = [0, 0];

    pub fn insert_model(_h : &mut RuleHistory, source_ticket : Ticket, file_state_vec : FileStateVec)
    -> Result<(), RuleHistoryInsertError>
    {
        unsafe
        {
            CALLS += 1;
            let sha = crate::ticket::verif::sha_of(&source_ticket);
            if !(sha[0] == 2 && sha[1] == EXPECT_SOURCE_BYTE)
            {
                ARG_OK = false;
            }
            let mut i = 0;
            while i < EXPECT_LEN
            {
                let t = crate::ticket::verif::sha_of(&file_state_vec.get_ticket(i));
                let c = EXPECT_CONTENT[i];
                let ok = if c == crate::symsys::EMPTY { t[0] == 0 } else { t[0] == 1 && t[1] == c };
                if !ok
                {
                    ARG_OK = false;
                }
                i += 1;
            }
            std::mem::forget(file_state_vec);
            if !HAS_ENTRY
            {
                return Ok(());
            }
            let mut idx = Vec::with_capacity(2);
            let mut i = 0;
            while i < EXPECT_LEN
            {
                if ENTRY_CONTENT[i] != EXPECT_CONTENT[i]
                {
                    idx.push(i);
                }
                i += 1;
            }
            if idx.len() == 0 { Ok(()) } else { Err(RuleHistoryInsertError::Contradiction(idx)) }
        }
    }
}


#[cfg(kani)]
pub mod verif_unit
{
    use super::*;
    use crate::ticket::verif::*;
    use std::cmp::PartialEq;
    use std::clone::Clone;

    fn any_content() -> u8
    {
        let c : u8 = kani::any();
        kani::assume(c <= crate::symsys::EMPTY);
        c
    }

    /*  UNIT (C17a): the real RuleHistory::insert + FileStateVec::compare for
        symbolic vectors of up to 3 tickets, with or without an existing entry
        for the key, lengths equal or not. */
    #[kani::proof]
    #[kani::unwind(5)]
    #[kani::stub(<crate::ticket::Ticket as PartialEq>::eq, crate::ticket::verif_eq::ticket_eq_words)]
    #[kani::stub(alloc::alloc::dealloc, crate::stubs::dealloc_noop)]
    fn unit_history_insert()
    {
        let n_old : usize = kani::any();
        let n_new : usize = kani::any();
        kani::assume(n_old >= 1 && n_old <= 3 && n_new >= 1 && n_new <= 3);
        let old = [any_content(), any_content(), any_content()];
        let new = [any_content(), any_content(), any_content()];
        let has_entry : bool = kani::any();
        let key = ticket_foreign(1);

        let mut entries = Vec::with_capacity(2);
        let mut o = Vec::with_capacity(3);
        o.push(ticket_of_content(0));
        entries.push((ticket_foreign(2), FileStateVec::from_ticket_vec(o)));
        if has_entry
        {
            let mut v = Vec::with_capacity(3);
            let mut i = 0;
            while i < n_old { v.push(ticket_of_content(old[i])); i += 1; }
            entries.push((ticket_foreign(1), FileStateVec::from_ticket_vec(v)));
        }
        let mut h = RuleHistory { source_to_targets : HashMap { items : entries } };

        let mut v = Vec::with_capacity(3);
        let mut i = 0;
        while i < n_new { v.push(ticket_of_content(new[i])); i += 1; }
        let r = h.insert(key, FileStateVec::from_ticket_vec(v));

        /*  the unrelated entry is never affected */
        assert!(h.source_to_targets.len() == 2 || (h.source_to_targets.len() == 1 && !has_entry && r.is_err()),
            "[C17] inserting changed the number of remembered entries unexpectedly");
        match h.get_file_state_vec(&ticket_foreign(2))
        {
            Some(o) => assert!(o.get_ticket(0) == ticket_of_content(0), "[C17] an unrelated history entry changed"),
            None => assert!(false, "[C17] an unrelated history entry vanished"),
        }
        if !has_entry
        {
            kani::cover!(true, "fresh insert");
            assert!(r.is_ok(), "[C17][C01] recording outputs for new sources failed");
            match h.get_file_state_vec(&ticket_foreign(1))
            {
                Some(e) =>
                {
                    let mut i = 0;
                    while i < n_new
                    {
                        assert!(e.get_ticket(i) == ticket_of_content(new[i]), "[C01][C02] recorded hashes differ from the ones inserted");
                        i += 1;
                    }
                },
                None => assert!(false, "[C01][C02] inserted entry cannot be found again"),
            }
        }
        else
        {
            /*  existing record kept unchanged whatever happens */
            match h.get_file_state_vec(&ticket_foreign(1))
            {
                Some(e) =>
                {
                    let mut i = 0;
                    while i < n_old
                    {
                        assert!(e.get_ticket(i) == ticket_of_content(old[i]), "[C17] the earlier record was modified by a contradicting insert");
                        i += 1;
                    }
                },
                None => assert!(false, "[C17] the earlier record vanished"),
            }
            if n_old != n_new
            {
                kani::cover!(true, "length mismatch");
                match r
                {
                    Err(RuleHistoryInsertError::TargetSizesDifferWeird) => {},
                    _ => assert!(false, "[C17] differing target counts not reported as such"),
                }
            }
            else
            {
                let mut ndiff = 0;
                let mut i = 0;
                while i < n_new
                {
                    if old[i] != new[i] { ndiff += 1; }
                    i += 1;
                }
                match r
                {
                    Ok(()) =>
                    {
                        kani::cover!(true, "identical re-insert");
                        assert!(ndiff == 0, "[C17] outputs differing from the record were silently accepted");
                    },
                    Err(RuleHistoryInsertError::Contradiction(idx)) =>
                    {
                        kani::cover!(true, "contradiction");
                        assert!(ndiff > 0, "[C17] contradiction reported for identical outputs");
                        assert!(idx.len() == ndiff, "[C17] contradiction does not list exactly the differing targets");
                        let mut k = 0;
                        let mut i = 0;
                        while i < n_new
                        {
                            if old[i] != new[i]
                            {
                                if k < idx.len()
                                {
                                    assert!(idx[k] == i, "[C17] contradiction lists a wrong target index or a wrong order");
                                }
                                k += 1;
                            }
                            i += 1;
                        }
                        std::mem::forget(idx);
                    },
                    Err(RuleHistoryInsertError::TargetSizesDifferWeird) =>
                        assert!(false, "[C17] equal target counts reported as differing"),
                }
            }
        }
        std::mem::forget(h);
    }
}
