
/*  C06 (DESIGN 3.2): one rule thread's resolve phase under rely/guarantee
    interference on the shared cache directory.  Before every System call that
    looks at or changes a cache entry the environment may take one step chosen
    by the solver from G = { a peer backs up a file with content k (entry k
    appears), a peer restores content k (entry k disappears) }, both of which
    preserve "entries hold the content they are named after".  Any number of
    peers and any interleaving at System-call granularity is a sequence of such
    steps; the budget bounds how many fall inside this one resolve phase. */
#[cfg(kani)]
pub mod verif_interf
{
    use super::*;
    use crate::symsys::*;
    use crate::fixture::*;
    use crate::prestate::{self, Clock};
    use crate::work::verif::assert_monitors;
    use std::cmp::PartialEq;
    use std::clone::Clone;

    fn interf_resolve(ntargets : usize, budget : u8)
    {
        let mut raw = any_raw();
        let pre = prestate::decode(&mut raw, ntargets, Clock::Distinct, true);
        install(&pre);
        fs().interf_budget = budget;
        let before = [fs().ws[0], fs().ws[1]];
        let other_before = fs().ws[2];
        let h = history_of(&pre);
        let blob = blob_of(&pre);
        let mut sys = SymSystem {};
        let mut cache = SysCache::new(SymSystem {}, "#");
        let dl = Some(DownloaderCache::new(vec![]));
        let r = resolve_with_cache(&mut sys, &mut cache, &dl, &h, &None, &sources_ticket(), &blob);
        assert_monitors(other_before);
        let f = fs();
        kani::cover!(f.n_interf >= 1, "a peer acted during the phase");
        match r
        {
            Ok(res) =>
            {
                let mut any_rebuild = false;
                let mut i = 0;
                while i < ntargets
                {
                    match res[i]
                    {
                        FileResolution::AlreadyCorrect =>
                            assert!(f.ws[i] == before[i] && f.ws[i].present && f.ws[i].content == pre.remembered[i],
                                "[C06][C01] under interference a target is accepted as up-to-date without holding the remembered content"),
                        FileResolution::Recovered =>
                        {
                            kani::cover!(f.n_interf >= 1, "recovered although a peer acted");
                            assert!(f.ws[i].present && f.ws[i].content == pre.remembered[i],
                                "[C06][C07] under interference a recovered target is not the remembered content");
                        },
                        FileResolution::NeedsRebuild => { any_rebuild = true; },
                        FileResolution::Downloaded => assert!(false, "[C20] 'Downloaded' reported with no download urls"),
                    }
                    i += 1;
                }
                if any_rebuild
                {
                    let _ = sys.execute_command(crate::system::to_command_script(vec![String::from("x")]));
                    assert!(fs().nothing_lost(), "[C06][C08] under interference the rebuild overwrites content that exists nowhere else");
                }
                std::mem::forget(res);
            },
            Err(e) =>
            {
                assert!(false, "[C06] a rule fails because another rule's thread added or took a byte-identical cache entry between two of its file-system calls");
                std::mem::forget(e);
            },
        }
        std::mem::forget(h);
        std::mem::forget(blob);
    }

    crate::step_harness!(interf_resolve_1t, 4, { interf_resolve(1, 2); });
    crate::step_harness!(interf_resolve_2t, 4, { interf_resolve(2, 2); });

    /*  clean_targets under the same interference */
    fn interf_clean(ntargets : usize, budget : u8)
    {
        let mut raw = any_raw();
        let pre = prestate::decode(&mut raw, ntargets, Clock::Distinct, false);
        install(&pre);
        fs().interf_budget = budget;
        let other_before = fs().ws[2];
        let mut sys = SymSystem {};
        let mut cache = SysCache::new(SymSystem {}, "#");
        let r = clean_targets(blob_of(&pre), &mut sys, &mut cache);
        assert_monitors(other_before);
        kani::cover!(fs().n_interf >= 1, "a peer acted during clean");
        match r
        {
            Ok(()) =>
            {
                let mut i = 0;
                while i < ntargets
                {
                    assert!(!fs().ws[i].present, "[C06][C10] under interference a target survives clean");
                    i += 1;
                }
            },
            Err(e) =>
            {
                assert!(false, "[C06] clean fails because another rule's thread touched a byte-identical cache entry");
                std::mem::forget(e);
            },
        }
    }

    crate::step_harness!(interf_clean_1t, 4, { interf_clean(1, 2); });
}
