
/*  The rebuild path through the PUBLIC entry point: the real handle_rule_node
    with resolve_with_cache replaced by a model of its decided post-condition
    (step_resolve_*: targets reported NeedsRebuild are absent, targets reported
    Up-to-date hold the remembered content, nothing else changed) and
    RuleHistory::insert by its contract model.  Unlike step_rebuild_node_* it
    does not depend on rebuild_node's own signature, so it keeps deciding C01 /
    C17 / C20 when the internals are refactored. */
#[cfg(kani)]
pub mod verif_rebuildpath
{
    use super::*;
    use crate::symsys::*;
    use crate::fixture::*;
    use crate::prestate::{self, Clock};
    use crate::ticket::verif::*;
    use std::cmp::PartialEq;
    use std::clone::Clone;

    pub static mut N : usize = 1;
    pub static mut RES : [u8; 2] = [3, 3];      // 0 = AlreadyCorrect, 3 = NeedsRebuild

    pub fn resolve_post<SystemType : System>(
        _system : &mut SystemType,
        _cache : &mut SysCache<SystemType>,
        _downloader_cache_opt : &Option<DownloaderCache>,
        _rule_history : &RuleHistory,
        _downloader_rule_history_opt : &Option<DownloaderRuleHistory>,
        _sources_ticket : &Ticket,
        _blob : &Blob,
    ) -> Result<Vec<FileResolution>, WorkError>
    {
        unsafe
        {
            let mut v = Vec::with_capacity(2);
            v.push(if RES[0] == 0 { FileResolution::AlreadyCorrect } else { FileResolution::NeedsRebuild });
            if N == 2 { v.push(if RES[1] == 0 { FileResolution::AlreadyCorrect } else { FileResolution::NeedsRebuild }); }
            Ok(v)
        }
    }

    fn rebuild_path(ntargets : usize)
    {
        use crate::history::verif_insert_model as im;
        let mut raw = any_raw();
        let pre = prestate::decode(&mut raw, ntargets, Clock::Distinct, false);
        install(&pre);
        let r0 : bool = kani::any();
        let r1 : bool = kani::any();
        let res = [if r0 { 3u8 } else { 0 }, if r1 { 3u8 } else { 0 }];
        kani::assume(res[0] == 3 || (ntargets == 2 && res[1] == 3));
        /*  the state the resolve phase leaves (its decided post-condition) */
        let mut i = 0;
        while i < ntargets
        {
            if res[i] == 3
            {
                fs().ws[i].present = false;
            }
            else
            {
                kani::assume(pre.has_history && fs().ws[i].present && fs().ws[i].content == pre.remembered[i]);
            }
            i += 1;
        }
        fs().snapshot_initial();
        unsafe
        {
            N = ntargets;
            RES = res;
            im::EXPECT_SOURCE_BYTE = 1;
            im::EXPECT_LEN = ntargets;
            im::EXPECT_CONTENT = pre.out;
            im::HAS_ENTRY = pre.has_history;
            im::ENTRY_CONTENT = pre.remembered;
        }
        let other_before = fs().ws[2];
        let r = handle_rule_node(crate::work::verif::node_info(blob_of(&pre)), crate::work::verif::rule_ext(&pre, history_of(&pre)));
        let f = fs();
        assert!(f.n_exec == 1, "[C01][C02][C20] a target needs a rebuild but the command did not run exactly once");
        assert!(f.n_renames == 0 && f.n_creates == 0 && f.n_chmods == 0, "[C08][C09] rebuilding moved or created files itself");
        assert!(f.ws[2] == other_before, "[C09] an out-of-scope file changed");
        assert!(unsafe { im::CALLS } == 1, "[C01][C02][C17] a successful command's outputs were not checked against / recorded in the rule history exactly once");
        assert!(unsafe { im::ARG_OK }, "[C01][C02][C17] what is recorded in the rule history is not (current sources hash -> true hashes of the targets)");
        let mut differs = [false; 2];
        let mut any_differs = false;
        let mut i = 0;
        while i < ntargets
        {
            if pre.has_history && pre.remembered[i] != pre.out[i] { differs[i] = true; any_differs = true; }
            i += 1;
        }
        match r
        {
            Ok(result) =>
            {
                kani::cover!(true, "rebuild Ok reachable");
                assert!(!any_differs, "[C17] command output contradicts the recorded output for identical sources but the build succeeded");
                let mut i = 0;
                while i < ntargets
                {
                    assert!(f.ws[i].present && f.ws[i].content == pre.out[i], "[C01] rebuild succeeded but a target does not hold what the command produces");
                    assert!(result.file_state_vec.get_ticket(i) == ticket_of_content(pre.out[i]),
                        "[C01][C03][C18] hash handed to dependents after a rebuild is not the hash of the target's content");
                    let st = crate::blob::verif::blob_state(&result.blob, i);
                    if st.timestamp == 1_000_000u64 * (f.ws[i].mtime as u64)
                    {
                        assert!(st.ticket == ticket_of_content(f.ws[i].content), "[C18][C01] file-state table entry written back after a rebuild pairs the file's mtime with another hash");
                    }
                    i += 1;
                }
                match result.work_option { WorkOption::CommandExecuted(_) => {}, _ => assert!(false, "[C20] command ran but the result does not say so") }
                std::mem::forget(result);
            },
            Err(WorkError::Contradiction(paths)) =>
            {
                kani::cover!(true, "Contradiction reachable");
                assert!(any_differs, "[C17][C04] contradiction reported although the outputs equal the recorded ones");
                let mut expect = 0;
                let mut i = 0;
                while i < ntargets { if differs[i] { expect += 1; } i += 1; }
                assert!(paths.len() == expect, "[C17] contradiction error does not name exactly the differing targets");
                let mut k = 0;
                let mut i = 0;
                while i < ntargets
                {
                    if differs[i]
                    {
                        if k < paths.len()
                        {
                            assert!(paths[k].as_bytes().len() == 1 && paths[k].as_bytes()[0] == b'a' + i as u8, "[C17] contradiction error names the wrong target");
                        }
                        k += 1;
                    }
                    i += 1;
                }
                std::mem::forget(paths);
            },
            Err(e) =>
            {
                assert!(false, "[C04] rebuild failed although the command succeeded and produced every target");
                std::mem::forget(e);
            },
        }
    }

    macro_rules! rebuildpath_harness
    {
        ($name:ident, $n:literal) =>
        {
            #[kani::proof]
            #[kani::unwind(4)]
            #[kani::stub(crate::ticket::Ticket::human_readable, crate::ticket::verif::hr_stub)]
            #[kani::stub(alloc::fmt::format, crate::stubs::format_stub)]
            #[kani::stub(crate::system::util::get_timestamp, crate::symsys::get_timestamp_stub)]
            #[kani::stub(<crate::ticket::Ticket as PartialEq>::eq, crate::ticket::verif_eq::ticket_eq_words)]
            #[kani::stub(alloc::alloc::dealloc, crate::stubs::dealloc_noop)]
            #[kani::stub(<std::string::String as Clone>::clone, crate::stubs::string_clone_short)]
            #[kani::stub(<crate::blob::FileStateVec as Clone>::clone, crate::blob::verif::fsv_clone_small)]
            #[kani::stub(crate::history::RuleHistory::insert, crate::history::verif_insert_model::insert_model)]
            #[kani::stub(crate::work::resolve_with_cache, crate::work::verif_rebuildpath::resolve_post)]
            fn $name() { rebuild_path($n); }
        };
    }

    rebuildpath_harness!(rule_rebuild_path_1t, 1);
    rebuildpath_harness!(rule_rebuild_path_2t, 2);
}
