#[cfg(kani)]
pub mod verif
{
    use super::*;
    use crate::symsys::*;
    use crate::fixture::*;
    use crate::prestate::{self, Clock, PreD};
    use crate::ticket::verif::*;
    use crate::blob::FileState;
    use std::cmp::PartialEq;
    use std::clone::Clone;

    pub fn rule_ext(pre : &PreD, history : RuleHistory) -> RuleExt<SymSystem>
    {
        RuleExt
        {
            sources_ticket : sources_ticket(),
            command : vec![String::from("x")],
            rule_history : history,
            cache : SysCache::new(SymSystem {}, "#"),
            /*  build() always passes Some(..); with no urls file the lists are empty. */
            downloader_cache_opt : Some(DownloaderCache::new(vec![])),
            downloader_rule_history_opt : None,
        }
    }

    pub fn node_info(blob : Blob) -> HandleNodeInfo<SymSystem>
    {
        let mut info = HandleNodeInfo::new(SymSystem {});
        info.blob = blob;
        info
    }

    /*  Monitors every step harness asserts. */
    pub fn assert_monitors(other_before : Slot)
    {
        let f = fs();
        assert!(!f.m_c07_cache_misfiled, "[C07][C11] after some mutation (= at some kill point) a cache entry holds content other than the one it is named after");
        assert!(!f.m_c08_overwrite, "[C08] a rename replaced a file holding different content");
        assert!(!f.m_c08_lost, "[C08][C11] after some mutation (= at some kill point) content present before the step is neither at a target nor in the cache");
        assert!(!f.m_created_by_ruler, "[C08][C09] ruler created a file or changed permissions itself");
        assert!(!f.m_c09_out_of_scope, "[C09] a mutating call named a path that is neither an in-scope target nor a cache entry");
        assert!(f.ws[2] == other_before, "[C09] an out-of-scope file changed");
    }

    /*  Post-condition of a successful handle_rule_node (C01 step obligation,
        plus C02/C18/C20 clauses that read the same values). */
    pub fn assert_ok_result(pre : &PreD, before : [Slot; 2], result : &WorkResult)
    {
        let f = fs();
        let n = pre.ntargets;
        let mut i = 0;
        while i < n
        {
            assert!(f.ws[i].present && f.ws[i].content == pre.out[i],
                "[C01] build step succeeded but a target does not hold what the command produces from the current sources");
            assert!(result.file_state_vec.get_ticket(i) == ticket_of_content(pre.out[i]),
                "[C01][C03][C18] hash handed to dependents is not the hash of the target's content");
            i += 1;
        }
        /*  I2 re-established: the returned history maps the sources hash to the true hashes. */
        match &result.rule_history
        {
            Some(h) =>
            {
                match h.get_file_state_vec(&sources_ticket())
                {
                    Some(v) =>
                    {
                        let mut i = 0;
                        while i < n
                        {
                            assert!(v.get_ticket(i) == ticket_of_content(pre.out[i]),
                                "[C01][C02] history written for this build does not record the targets' true hashes");
                            i += 1;
                        }
                    },
                    None => assert!(false, "[C02] a finished rule's history has no entry for the sources it was built from"),
                }
            },
            None => assert!(false, "[C02] a finished rule returned no history"),
        }
        /*  I3 re-established: the table entries handed back are truthful. */
        let infos = result.blob.get_file_infos();
        assert!(infos.len() == n, "[C09][C20] result blob does not have one entry per target");
        let mut i = 0;
        while i < n
        {
            let st = &infos[i].file_state;
            if st.timestamp == 1_000_000u64 * (f.ws[i].mtime as u64)
            {
                assert!(st.ticket == ticket_of_content(f.ws[i].content),
                    "[C18][C07][C01] file-state table entry written back pairs the file's mtime with a hash that is not the file's");
            }
            i += 1;
        }
        /*  C20 truthfulness + C02 */
        assert!(f.n_exec <= 1, "[C02] command ran more than once");
        match &result.work_option
        {
            WorkOption::CommandExecuted(_) =>
            {
                kani::cover!(true, "CommandExecuted reachable");
                assert!(f.n_exec == 1, "[C20] 'Built' reported but the command did not run");
            },
            WorkOption::Resolutions(res) =>
            {
                kani::cover!(true, "Resolutions reachable");
                assert!(f.n_exec == 0, "[C20] command ran but per-target resolutions are reported instead of 'Built'");
                assert!(res.len() == n, "[C20] not exactly one status per target");
                let mut i = 0;
                while i < n
                {
                    match res[i]
                    {
                        FileResolution::AlreadyCorrect =>
                        {
                            assert!(!f.ws_touched[i] && f.ws[i] == before[i], "[C20] 'Up-to-date' reported for a target that was touched");
                        },
                        FileResolution::Recovered =>
                        {
                            kani::cover!(true, "Recovered in result reachable");
                            assert!(f.restored_into[i], "[C20] 'Recovered' reported for a target nothing was restored into");
                        },
                        FileResolution::Downloaded => assert!(false, "[C20] 'Downloaded' reported with no download urls"),
                        FileResolution::NeedsRebuild => assert!(false, "[C20][C01] rule finished without running although a target needed a rebuild"),
                    }
                    i += 1;
                }
            },
            WorkOption::SourceOnly => assert!(false, "[C20] rule node reported as source-only"),
        }
    }

    /*  C02: "must not run" obligation.  History has the current sources hash
        (I2) and every target holds the remembered content or its cache slot is
        there, and no two targets need the same slot. */
    pub fn must_not_run(pre : &PreD) -> bool
    {
        if !pre.has_history
        {
            return false;
        }
        let n = pre.ntargets;
        let mut need = [false; 2];
        let mut i = 0;
        while i < n
        {
            let at_target = pre.ws[i].present && pre.ws[i].content == pre.remembered[i];
            if !at_target
            {
                if !pre.cache[pre.remembered[i] as usize].present
                {
                    return false;
                }
                need[i] = true;
            }
            i += 1;
        }
        if n == 2 && need[0] && need[1] && pre.remembered[0] == pre.remembered[1]
        {
            return false;
        }
        /*  A target that currently holds what the *other* target needs is
            displaced into the cache first and can then serve the other one;
            that only helps, so no further exclusion. */
        true
    }

    #[allow(dead_code)]
    fn step_rule(ntargets : usize)
    {
        let mut raw = any_raw();
        let pre = prestate::decode(&mut raw, ntargets, Clock::Distinct, true);
        install(&pre);
        let before = [fs().ws[0], fs().ws[1]];
        let other_before = fs().ws[2];
        let r = handle_rule_node(node_info(blob_of(&pre)), rule_ext(&pre, history_of(&pre)));
        assert_monitors(other_before);
        match r
        {
            Ok(result) =>
            {
                assert_ok_result(&pre, before, &result);
                if must_not_run(&pre)
                {
                    kani::cover!(true, "must-not-run case reachable");
                    assert!(fs().n_exec == 0, "[C02] command ran although the rule was already built from identical sources and every target was in place or in the cache");
                }
                if fs().n_exec == 0 && fs().n_mutations == 0
                {
                    kani::cover!(true, "nothing-to-do case reachable");
                }
                std::mem::forget(result);
            },
            Err(e) =>
            {
                assert!(false, "[C04] rule failed although its command succeeds and nothing is wrong with cache or targets");
                std::mem::forget(e);
            },
        }
    }

    /*  (step_rule is not registered as a harness: the whole of handle_rule_node in one formula
        exhausts CBMC's memory during propositional reduction -- see the phase decomposition below;
        it is kept as the statement of the combined post-condition.) */

    /*  STEP: work::handle_source_only_node. */
    crate::step_harness!(step_leaf, 4, {
        let mut raw = any_raw();
        let pre = prestate::decode(&mut raw, 1, Clock::Distinct, false);
        install(&pre);
        /*  a leaf is never in scope for mutation */
        fs().in_scope[0] = false;
        let before = fs().ws[0];
        let r = handle_source_only_node(SymSystem {}, blob_of(&pre));
        let f = fs();
        assert!(f.n_mutations == 0 && f.n_exec == 0, "[C09] handling a source file modified the file system or ran a command");
        assert!(f.ws[0] == before, "[C09] a source file changed");
        match r
        {
            Ok(result) =>
            {
                kani::cover!(true, "leaf present");
                assert!(before.present, "[C04] a missing source file was not reported");
                assert!(result.file_state_vec.get_ticket(0) == ticket_of_content(before.content),
                    "[C01][C03][C18] hash of a source handed to dependents is not the hash of its content");
                match result.work_option { WorkOption::SourceOnly => {}, _ => assert!(false, "[C20] source file reported with a status") }
                assert!(result.rule_history.is_none(), "[C04] history returned for a source file");
                std::mem::forget(result);
            },
            Err(WorkError::FileNotFound(p)) =>
            {
                kani::cover!(true, "leaf missing");
                assert!(!before.present, "[C04] an existing source file was reported missing");
                assert!(p.as_bytes().len() == 1 && p.as_bytes()[0] == b'a', "[C04] missing-file error does not name the missing file");
                std::mem::forget(p);
            },
            Err(e) =>
            {
                assert!(false, "[C04] source file produced an error other than file-not-found");
                std::mem::forget(e);
            },
        }
    });

    /*  ---- handle_rule_node decomposed along its own phases ----------------
        handle_rule_node = resolve_with_cache ; (rebuild_node | get_current_file_state_vec).
        The whole function in one formula exhausts memory (symex 238 s, then
        "ran out of memory during propositional reduction" at 14 GB), so each
        phase is decided on its own from an arbitrary pre-state under I1/I3 and
        the glue (which phase runs, how the result is assembled) in
        glue_handle_rule_node with the phases stubbed. */

    fn step_resolve_phase(ntargets : usize)
    {
        let mut raw = any_raw();
        let pre = prestate::decode(&mut raw, ntargets, Clock::Distinct, true);
        install(&pre);
        let before = [fs().ws[0], fs().ws[1]];
        let other_before = fs().ws[2];
        let h = history_of(&pre);
        let blob = blob_of(&pre);
        let mut sys = SymSystem {};
        let mut cache = SysCache::new(SymSystem {}, "#");
        let dl = Some(DownloaderCache::new(vec![]));
        let r = resolve_with_cache(&mut sys, &mut cache, &dl, &h, &None, &sources_ticket(), &blob);
        assert_monitors(other_before);
        let f = fs();
        assert!(f.n_exec == 0, "[C02] resolving targets ran a command");
        match r
        {
            Ok(res) =>
            {
                assert!(res.len() == ntargets, "[C20] not exactly one resolution per target");
                let mut any_rebuild = false;
                let mut i = 0;
                while i < ntargets
                {
                    match res[i]
                    {
                        FileResolution::AlreadyCorrect =>
                        {
                            kani::cover!(true, "AlreadyCorrect reachable");
                            assert!(pre.has_history, "[C01] target accepted as up-to-date although nothing is remembered for the current sources");
                            assert!(!f.ws_touched[i] && f.ws[i] == before[i], "[C20][C02] 'Up-to-date' reported for a target that was touched");
                            assert!(f.ws[i].present && f.ws[i].content == pre.remembered[i],
                                "[C01][C18][C20] target accepted as up-to-date but it does not hold the remembered content");
                        },
                        FileResolution::Recovered =>
                        {
                            kani::cover!(true, "Recovered reachable");
                            assert!(pre.has_history, "[C01] target recovered although nothing is remembered for the current sources");
                            assert!(f.restored_into[i], "[C20] 'Recovered' reported for a target nothing was restored into");
                            assert!(f.ws[i].present && f.ws[i].content == pre.remembered[i],
                                "[C01][C07][C10] recovered target is not the remembered content");
                        },
                        FileResolution::NeedsRebuild =>
                        {
                            kani::cover!(true, "NeedsRebuild reachable");
                            any_rebuild = true;
                        },
                        FileResolution::Downloaded => assert!(false, "[C20] 'Downloaded' reported with no download urls"),
                    }
                    i += 1;
                }
                if any_rebuild
                {
                    /*  handle_rule_node now runs the command: it overwrites every
                        target.  Whatever the resolve phase left in place without a
                        back-up is gone unless the command rewrites identical bytes. */
                    let _ = sys.execute_command(crate::system::to_command_script(vec![String::from("x")]));
                    assert!(fs().nothing_lost(),
                        "[C08] the rebuild overwrites a target whose content was not backed up and exists nowhere else");
                }
                if must_not_run(&pre)
                {
                    kani::cover!(true, "must-not-run case reachable");
                    assert!(!any_rebuild, "[C02][C10] a rebuild is demanded although the rule was already built from identical sources and every target was in place or in the cache");
                }
                std::mem::forget(res);
            },
            Err(e) =>
            {
                assert!(false, "[C04][C10] resolving the rule's targets failed although nothing is wrong with cache or targets");
                std::mem::forget(e);
            },
        }
        std::mem::forget(h);
        std::mem::forget(blob);
    }

    crate::step_harness!(step_resolve_phase_1t, 4, { step_resolve_phase(1); });
    crate::step_harness!(step_resolve_phase_2t, 4, { step_resolve_phase(2); });

    /*  STEP: work::clean_targets from any pre-state under I1/I3. */
    fn step_clean(ntargets : usize)
    {
        let mut raw = any_raw();
        let pre = prestate::decode(&mut raw, ntargets, Clock::Distinct, false);
        install(&pre);
        let before = [fs().ws[0], fs().ws[1]];
        let other_before = fs().ws[2];
        let mut sys = SymSystem {};
        let mut cache = SysCache::new(SymSystem {}, "#");
        let r = clean_targets(blob_of(&pre), &mut sys, &mut cache);
        assert_monitors(other_before);
        let f = fs();
        assert!(f.n_exec == 0, "[C10][C02] clean ran a command");
        match r
        {
            Ok(()) =>
            {
                let mut i = 0;
                while i < ntargets
                {
                    assert!(!f.ws[i].present, "[C10] a target file still exists after clean");
                    if before[i].present
                    {
                        kani::cover!(true, "clean moved a target");
                        let c = before[i].content as usize;
                        assert!(f.cache[c].present && f.cache[c].content == before[i].content,
                            "[C10][C08] a cleaned target's content is not in the cache under its hash");
                    }
                    i += 1;
                }
            },
            Err(e) =>
            {
                assert!(false, "[C10][C04] clean failed although nothing is wrong with cache or targets");
                std::mem::forget(e);
            },
        }
    }

    crate::step_harness!(step_clean_1t, 4, { step_clean(1); });
    crate::step_harness!(step_clean_2t, 4, { step_clean(2); });

    /*  C10: clean, then the resolve phase of the next build (the file-state
        table is NOT rewritten by clean, so the build starts from the stale
        entries).  Pre-state: targets up to date (content = remembered = what
        the command produces), history has the entry.  Afterwards every target
        is back, byte-identical, with its executable bit, and nothing asks for a
        rebuild, provided the targets' contents are pairwise different. */
    fn clean_then_build(ntargets : usize)
    {
        let mut raw = any_raw();
        let pre = prestate::decode(&mut raw, ntargets, Clock::Distinct, true);
        kani::assume(pre.has_history);
        let mut i = 0;
        while i < ntargets
        {
            kani::assume(pre.ws[i].present && pre.ws[i].content == pre.remembered[i]);
            i += 1;
        }
        if ntargets == 2
        {
            kani::assume(pre.remembered[0] != pre.remembered[1]);
        }
        install(&pre);
        let before = [fs().ws[0], fs().ws[1]];
        let other_before = fs().ws[2];
        let mut sys = SymSystem {};
        let mut cache = SysCache::new(SymSystem {}, "#");
        let rc = clean_targets(blob_of(&pre), &mut sys, &mut cache);
        assert!(rc.is_ok(), "[C10] clean failed on an up-to-date workspace");
        std::mem::forget(rc);
        let mut i = 0;
        while i < ntargets
        {
            assert!(!fs().ws[i].present, "[C10] a target file still exists after clean");
            i += 1;
        }
        let h = history_of(&pre);
        let blob = blob_of(&pre);
        let dl = Some(DownloaderCache::new(vec![]));
        let r = resolve_with_cache(&mut sys, &mut cache, &dl, &h, &None, &sources_ticket(), &blob);
        /*  (the generic monitors are asserted at the END: an assertion that fails cuts the path, and this
            harness's own clauses must not be hidden behind another property's monitor) */
        let f = fs();
        match r
        {
            Ok(res) =>
            {
                let mut i = 0;
                while i < ntargets
                {
                    match res[i]
                    {
                        FileResolution::Recovered => {},
                        _ => assert!(false, "[C10][C02] a cleaned, up-to-date target is not simply recovered from the cache by the next build"),
                    }
                    assert!(f.ws[i].present && f.ws[i].content == before[i].content, "[C10] target not byte-identical after clean + build");
                    assert!(f.ws[i].exec == before[i].exec, "[C10] executable permission lost across clean + build");
                    i += 1;
                }
                std::mem::forget(res);
            },
            Err(e) =>
            {
                assert!(false, "[C10] the build after a clean failed");
                std::mem::forget(e);
            },
        }
        assert!(f.n_exec == 0, "[C10] a command ran");
        assert_monitors(other_before);
        std::mem::forget(h);
        std::mem::forget(blob);
    }

    crate::step_harness!(clean_then_build_1t, 4, { clean_then_build(1); });
    crate::step_harness!(clean_then_build_2t, 4, { clean_then_build(2); });

    /*  I3 for the table entries a step hands back: an entry (h, m) must be
        truthful for EVERY file (workspace or cache) whose mtime is m. */
    pub fn assert_table_truthful(blob : &Blob, ntargets : usize)
    {
        let f = fs();
        let mut i = 0;
        while i < ntargets
        {
            let st = crate::blob::verif::blob_state(blob, i);
            let c = content_of_ticket(&st.ticket);
            crate::unroll3!(w, {
                if f.ws[w].present && 1_000_000u64 * (f.ws[w].mtime as u64) == st.timestamp
                {
                    assert!(c == Some(f.ws[w].content),
                        "[C18][C07][C01] file-state table entry handed back pairs an mtime with a hash that is not the hash of the file carrying that mtime");
                }
            });
            crate::unroll5!(k, {
                if f.cache[k].present && 1_000_000u64 * (f.cache[k].mtime as u64) == st.timestamp
                {
                    assert!(c == Some(f.cache[k].content),
                        "[C18][C07][C01] file-state table entry handed back pairs an mtime with a hash that is not the hash of the (cached) file carrying that mtime");
                }
            });
            i += 1;
        }
    }


}


