
/*  C16 / C11(b): the real bincode (de)serialisation of RuleHistory (serde derive
    + the vstd map model's serde impls) on a symbolic one-entry history. */
#[cfg(kani)]
pub mod verif_codec
{
    use super::*;
    use crate::blob::FileState;
    use crate::ticket::verif::*;
    use std::cmp::PartialEq;
    use std::clone::Clone;

    fn any_ticket() -> Ticket
    {
        /*  two symbolic bytes, the rest zero: the codec does not look at the values */
        let mut sha = [0u8; 32];
        sha[0] = kani::any();
        sha[31] = kani::any();
        ticket_from_bytes(sha)
    }

    fn one_entry_history(ntargets : usize) -> RuleHistory
    {
        let mut infos = Vec::with_capacity(2);
        infos.push(FileState { ticket : any_ticket(), timestamp : kani::any(), executable : kani::any() });
        if ntargets == 2
        {
            infos.push(FileState { ticket : any_ticket(), timestamp : kani::any(), executable : kani::any() });
        }
        let mut entries = Vec::with_capacity(1);
        entries.push((any_ticket(), crate::blob::verif::fsv_from_states(infos)));
        crate::history::verif::history_from_entries(entries)
    }

    #[kani::proof]
    #[kani::unwind(34)]
    #[kani::stub(<crate::ticket::Ticket as PartialEq>::eq, crate::ticket::verif_eq::ticket_eq_words)]
    #[kani::stub(alloc::alloc::dealloc, crate::stubs::dealloc_noop)]
    #[kani::stub(alloc::fmt::format, crate::stubs::format_empty_stub)]
    fn codec_history_roundtrip_1()
    {
        let h = one_entry_history(1);
        let bytes = match bincode::serialize(&h)
        {
            Ok(b) => b,
            Err(e) => { assert!(false, "[C16] a rule history cannot be serialised"); std::mem::forget(e); return; },
        };
        assert!(bytes.len() == 89, "harness: unexpected encoding length");
        let back : Result<RuleHistory, _> = bincode::deserialize(&bytes);
        match back
        {
            Ok(h2) =>
            {
                assert!(h2 == h, "[C16] a rule history is not read back identically");
                std::mem::forget(h2);
            },
            Err(e) => { assert!(false, "[C16] a just-written rule history is rejected"); std::mem::forget(e); },
        }
        std::mem::forget(h);
        std::mem::forget(bytes);
    }
}
