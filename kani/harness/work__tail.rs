
/*  The no-rebuild tail, calling get_current_file_state_vec DIRECTLY: a part of its own. */
#[cfg(kani)]
pub mod verif_tail
{
    use super::*;
    use super::verif::*;
    use crate::symsys::*;
    use crate::fixture::*;
    use crate::prestate::{self, Clock, PreD};
    use crate::ticket::verif::*;
    use crate::blob::FileState;
    use std::cmp::PartialEq;
    use std::clone::Clone;

    /*  The no-rebuild tail of handle_rule_node: Blob::get_current_file_state_vec
        on the blob that is then returned (and persisted as the file-state table). */
    fn step_tail(ntargets : usize)
    {
        let mut raw = any_raw();
        let pre = prestate::decode(&mut raw, ntargets, Clock::Distinct, false);
        install(&pre);
        let before = [fs().ws[0], fs().ws[1]];
        let mut blob = blob_of(&pre);
        let sys = SymSystem {};
        let r = blob.get_current_file_state_vec(&sys);
        let f = fs();
        assert!(f.n_mutations == 0 && f.n_exec == 0, "[C02][C09] hashing the targets modified the file system");
        let all_present = before[0].present && (ntargets < 2 || before[1].present);
        match r
        {
            Ok(v) =>
            {
                kani::cover!(true, "tail Ok");
                assert!(all_present, "[C04][C01] a missing target went unnoticed");
                let mut i = 0;
                while i < ntargets
                {
                    assert!(v.get_ticket(i) == ticket_of_content(before[i].content),
                        "[C01][C03][C18] hash handed to dependents is not the hash of the target's content");
                    i += 1;
                }
                std::mem::forget(v);
            },
            Err(GetFileStateError::FileNotFound(p)) =>
            {
                kani::cover!(true, "tail missing");
                assert!(!all_present, "[C04] an existing target was reported missing");
                let first_missing = if !before[0].present { 0u8 } else { 1u8 };
                assert!(p.as_bytes().len() == 1 && p.as_bytes()[0] == b'a' + first_missing, "[C04] missing-target error does not name the missing file");
                std::mem::forget(p);
            },
            Err(e) =>
            {
                assert!(false, "[C04] hashing targets failed with an unexpected error");
                std::mem::forget(e);
            },
        }
        assert_table_truthful(&blob, ntargets);
        std::mem::forget(blob);
    }

    crate::step_harness!(step_tail_1t, 4, { step_tail(1); });
    crate::step_harness!(step_tail_2t, 4, { step_tail(2); });
}
