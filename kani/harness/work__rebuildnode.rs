
/*  rebuild_node called DIRECTLY (its own signature): kept in a part of its own so that a change of
    that signature takes only this part out of the build, not every harness of the module. */
#[cfg(kani)]
pub mod verif_rebuildnode
{
    use super::*;
    use super::verif::*;
    use crate::symsys::*;
    use crate::fixture::*;
    use crate::prestate::{self, Clock, PreD};
    use crate::ticket::verif::*;
    use crate::blob::FileState;
    use std::cmp::PartialEq;
    use std::clone::Clone;

    /*  rebuild_node from any state under I1/I3.  The rule history may or may not have an entry for
        the sources hash, and the entry need NOT agree with what the command produces now (C17's
        scenario); when it agrees (or is absent) the C01 post-condition must hold.  RuleHistory::insert
        is replaced by its contract model (the real insert + compare are decided on their own in
        unit_history_insert): with the real one in place CBMC runs out of memory. */
    fn step_rebuild_phase_m(ntargets : usize)
    {
        use crate::history::verif_insert_model as im;
        let mut raw = any_raw();
        let pre = prestate::decode(&mut raw, ntargets, Clock::Distinct, false);
        install(&pre);
        let other_before = fs().ws[2];
        unsafe
        {
            im::EXPECT_SOURCE_BYTE = 1;
            im::EXPECT_LEN = ntargets;
            im::EXPECT_CONTENT = pre.out;
            im::HAS_ENTRY = pre.has_history;
            im::ENTRY_CONTENT = pre.remembered;
        }
        let h = history_of(&pre);
        let blob = blob_of(&pre);
        let mut sys = SymSystem {};
        let r = rebuild_node(&mut sys, h, sources_ticket(), vec![String::from("x")], blob);
        let f = fs();
        assert!(f.n_exec == 1, "[C02][C20] rebuilding did not run the command exactly once");
        assert!(f.n_renames == 0 && f.n_creates == 0 && f.n_chmods == 0, "[C08][C09] rebuilding moved or created files itself");
        assert!(f.ws[2] == other_before, "[C09] an out-of-scope file changed");
        assert!(unsafe { im::CALLS } == 1, "[C01][C02] a successful command's outputs were not recorded exactly once");
        assert!(unsafe { im::ARG_OK }, "[C01][C02][C17] what is recorded in the rule history is not (current sources hash -> true hashes of the targets)");
        let mut differs = [false; 2];
        let mut any_differs = false;
        let mut i = 0;
        while i < ntargets
        {
            if pre.has_history && pre.remembered[i] != pre.out[i]
            {
                differs[i] = true;
                any_differs = true;
            }
            i += 1;
        }
        match r
        {
            Ok(result) =>
            {
                kani::cover!(true, "rebuild Ok reachable");
                assert!(!any_differs, "[C17] command output contradicts the recorded output for identical sources but the build succeeded");
                let mut i = 0;
                while i < ntargets
                {
                    assert!(f.ws[i].present && f.ws[i].content == pre.out[i],
                        "[C01] rebuild succeeded but a target does not hold what the command produces");
                    assert!(result.file_state_vec.get_ticket(i) == ticket_of_content(pre.out[i]),
                        "[C01][C03][C18] hash handed to dependents after a rebuild is not the hash of the target's content");
                    let st = crate::blob::verif::blob_state(&result.blob, i);
                    assert!(st.ticket == ticket_of_content(pre.out[i]) && st.timestamp == 1_000_000u64 * ((if i == 0 { pre.fresh } else { pre.fresh2 }) as u64),
                        "[C18][C07][C01] file-state table entry written back after a rebuild is not (hash, mtime) of the new file");
                    assert!(st.executable == f.ws[i].exec, "[C10] file-state table entry does not record the executable bit");
                    i += 1;
                }
                assert!(result.rule_history.is_some(), "[C02] rebuild returned no history");
                match result.work_option
                {
                    WorkOption::CommandExecuted(_) => {},
                    _ => assert!(false, "[C20] command ran but the result does not say so"),
                }
                std::mem::forget(result);
            },
            Err(WorkError::Contradiction(paths)) =>
            {
                kani::cover!(true, "Contradiction reachable");
                assert!(any_differs, "[C17][C04] contradiction reported although the outputs equal the recorded ones");
                let mut expect = 0;
                let mut i = 0;
                while i < ntargets
                {
                    if differs[i] { expect += 1; }
                    i += 1;
                }
                assert!(paths.len() == expect, "[C17] contradiction error does not name exactly the differing targets");
                let mut k = 0;
                let mut i = 0;
                while i < ntargets
                {
                    if differs[i]
                    {
                        if k < paths.len()
                        {
                            assert!(paths[k].as_bytes().len() == 1 && paths[k].as_bytes()[0] == b'a' + i as u8,
                                "[C17] contradiction error names the wrong target");
                        }
                        k += 1;
                    }
                    i += 1;
                }
                std::mem::forget(paths);
            },
            Err(e) =>
            {
                assert!(false, "[C04] rebuild failed although the command succeeded and produced every target");
                std::mem::forget(e);
            },
        }
    }


    #[kani::proof]
    #[kani::unwind(4)]
    #[kani::stub(crate::ticket::Ticket::human_readable, crate::ticket::verif::hr_stub)]
    #[kani::stub(alloc::fmt::format, crate::stubs::format_stub)]
    #[kani::stub(crate::system::util::get_timestamp, crate::symsys::get_timestamp_stub)]
    #[kani::stub(<crate::ticket::Ticket as PartialEq>::eq, crate::ticket::verif_eq::ticket_eq_words)]
    #[kani::stub(alloc::alloc::dealloc, crate::stubs::dealloc_noop)]
    #[kani::stub(<std::string::String as Clone>::clone, crate::stubs::string_clone_short)]
    #[kani::stub(crate::history::RuleHistory::insert, crate::history::verif_insert_model::insert_model)]
    #[kani::stub(<crate::blob::FileStateVec as Clone>::clone, crate::blob::verif::fsv_clone_small)]
    fn step_rebuild_node_1t()
    {
        step_rebuild_phase_m(1);
    }

    #[kani::proof]
    #[kani::unwind(4)]
    #[kani::stub(crate::ticket::Ticket::human_readable, crate::ticket::verif::hr_stub)]
    #[kani::stub(alloc::fmt::format, crate::stubs::format_stub)]
    #[kani::stub(crate::system::util::get_timestamp, crate::symsys::get_timestamp_stub)]
    #[kani::stub(<crate::ticket::Ticket as PartialEq>::eq, crate::ticket::verif_eq::ticket_eq_words)]
    #[kani::stub(alloc::alloc::dealloc, crate::stubs::dealloc_noop)]
    #[kani::stub(<std::string::String as Clone>::clone, crate::stubs::string_clone_short)]
    #[kani::stub(crate::history::RuleHistory::insert, crate::history::verif_insert_model::insert_model)]
    #[kani::stub(<crate::blob::FileStateVec as Clone>::clone, crate::blob::verif::fsv_clone_small)]
    fn step_rebuild_node_2t()
    {
        step_rebuild_phase_m(2);
    }

}
