/*  GLUE: handle_rule_node itself with its three phases replaced by recording
    models.  Decides which phase runs on which outcome of the one before and
    how the result is assembled; the phases are decided on their own above. */
#[cfg(kani)]
pub mod verif_glue
{
    use super::*;
    use crate::symsys::*;
    use crate::ticket::verif::*;
    use crate::blob::FileState;
    use std::cmp::PartialEq;
    use std::clone::Clone;

    pub static mut N : usize = 1;
    pub static mut RESOLVE_CALLS : usize = 0;
    pub static mut REBUILD_CALLS : usize = 0;
    pub static mut TAIL_CALLS : usize = 0;
    pub static mut ORDER_OK : bool = true;
    pub static mut ARGS_OK : bool = true;
    pub static mut RESOLVE_ERR : bool = false;
    pub static mut RES : [u8; 2] = [0, 0];          // 0 AlreadyCorrect 1 Recovered 2 Downloaded 3 NeedsRebuild
    pub static mut REBUILD_ERR : bool = false;
    pub static mut TAIL_ERR : bool = false;

    fn resolution(k : u8) -> FileResolution
    {
        match k
        {
            0 => FileResolution::AlreadyCorrect,
            1 => FileResolution::Recovered,
            2 => FileResolution::Downloaded,
            _ => FileResolution::NeedsRebuild,
        }
    }

    /*  `may_forget`: an entry may have been reset to FileState::empty() (not trusting a remembered
        state is always safe; trusting one that describes another file is not) */
    fn blob_is_ours(blob : &Blob) -> bool
    {
        blob_is_ours_ex(blob, false)
    }

    fn blob_is_ours_ex(blob : &Blob, may_forget : bool) -> bool
    {
        let n = unsafe { N };
        if crate::blob::verif::blob_len(blob) != n { return false; }
        let mut ok = true;
        let mut i = 0;
        while i < n
        {
            let b = crate::blob::verif::blob_path(blob, i).as_bytes();
            if !(b.len() == 1 && b[0] == b'a' + i as u8) { ok = false; }
            let ts = crate::blob::verif::blob_state(blob, i).timestamp;
            if !(ts == 7_000_000u64 + i as u64 || (may_forget && ts == u64::MAX)) { ok = false; }
            i += 1;
        }
        ok
    }

    fn history_is_ours(h : &RuleHistory) -> bool
    {
        crate::history::verif::history_len(h) == 1 && h.get_file_state_vec(&ticket_foreign(9)).is_some()
    }

    pub fn resolve_model<SystemType : System>(
        _system : &mut SystemType,
        _cache : &mut SysCache<SystemType>,
        _downloader_cache_opt : &Option<DownloaderCache>,
        rule_history : &RuleHistory,
        _downloader_rule_history_opt : &Option<DownloaderRuleHistory>,
        sources_ticket : &Ticket,
        blob : &Blob,
    ) -> Result<Vec<FileResolution>, WorkError>
    {
        unsafe
        {
            if REBUILD_CALLS != 0 || TAIL_CALLS != 0 { ORDER_OK = false; }
            RESOLVE_CALLS += 1;
            if !(sha_of(sources_ticket)[0] == 2 && sha_of(sources_ticket)[1] == 1) { ARGS_OK = false; }
            if !blob_is_ours(blob) || !history_is_ours(rule_history) { ARGS_OK = false; }
            if RESOLVE_ERR
            {
                return Err(WorkError::ResolutionError(ResolutionError::CacheDirectoryMissing));
            }
            let mut v = Vec::with_capacity(2);
            let mut i = 0;
            while i < N
            {
                v.push(resolution(RES[i]));
                i += 1;
            }
            Ok(v)
        }
    }

    pub fn rebuild_model<SystemType : System>(
        _system : &mut SystemType,
        rule_history : RuleHistory,
        sources_ticket : Ticket,
        command : Vec<String>,
        blob : Blob
    ) -> Result<WorkResult, WorkError>
    {
        unsafe
        {
            if RESOLVE_CALLS != 1 || TAIL_CALLS != 0 { ORDER_OK = false; }
            REBUILD_CALLS += 1;
            if !(sha_of(&sources_ticket)[0] == 2 && sha_of(&sources_ticket)[1] == 1) { ARGS_OK = false; }
            if !blob_is_ours(&blob) || !history_is_ours(&rule_history) { ARGS_OK = false; }
            if !(command.len() == 1 && command[0].as_bytes().len() == 1 && command[0].as_bytes()[0] == b'x') { ARGS_OK = false; }
            std::mem::forget(command);
            if REBUILD_ERR
            {
                std::mem::forget(rule_history);
                std::mem::forget(blob);
                return Err(WorkError::CommandExecutedButErrored);
            }
            Ok(WorkResult
            {
                file_state_vec : crate::blob::verif::fsv1(ticket_foreign(77)),
                blob : blob,
                work_option : WorkOption::CommandExecuted(CommandLineOutput { out : String::new(), err : String::new(), code : Some(0), success : true }),
                rule_history : Some(rule_history),
            })
        }
    }

    pub fn tail_model<SystemType : System>(blob : &Blob, _system : &SystemType) -> Result<FileStateVec, GetFileStateError>
    {
        unsafe
        {
            if RESOLVE_CALLS != 1 || REBUILD_CALLS != 0 { ORDER_OK = false; }
            TAIL_CALLS += 1;
            if !blob_is_ours_ex(blob, true) { ARGS_OK = false; }
            if TAIL_ERR
            {
                return Err(GetFileStateError::FileNotFound(String::from("b")));
            }
            Ok(crate::blob::verif::fsv1(ticket_foreign(88)))
        }
    }

    #[kani::proof]
    #[kani::unwind(4)]
    #[kani::stub(<crate::ticket::Ticket as PartialEq>::eq, crate::ticket::verif_eq::ticket_eq_words)]
    #[kani::stub(alloc::alloc::dealloc, crate::stubs::dealloc_noop)]
    #[kani::stub(alloc::fmt::format, crate::stubs::format_empty_stub)]
    #[kani::stub(<std::string::String as Clone>::clone, crate::stubs::string_clone_short)]
    #[kani::stub(crate::work::resolve_with_cache, crate::work::verif_glue::resolve_model)]
    #[kani::stub(crate::work::rebuild_node, crate::work::verif_glue::rebuild_model)]
    #[kani::stub(crate::blob::Blob::get_current_file_state_vec, crate::work::verif_glue::tail_model)]
    fn glue_handle_rule_node_1t()
    {
        glue(1);
    }

    #[kani::proof]
    #[kani::unwind(4)]
    #[kani::stub(<crate::ticket::Ticket as PartialEq>::eq, crate::ticket::verif_eq::ticket_eq_words)]
    #[kani::stub(alloc::alloc::dealloc, crate::stubs::dealloc_noop)]
    #[kani::stub(alloc::fmt::format, crate::stubs::format_empty_stub)]
    #[kani::stub(<std::string::String as Clone>::clone, crate::stubs::string_clone_short)]
    #[kani::stub(crate::work::resolve_with_cache, crate::work::verif_glue::resolve_model)]
    #[kani::stub(crate::work::rebuild_node, crate::work::verif_glue::rebuild_model)]
    #[kani::stub(crate::blob::Blob::get_current_file_state_vec, crate::work::verif_glue::tail_model)]
    fn glue_handle_rule_node_2t()
    {
        glue(2);
    }

    /*  n is concrete in each harness: a blob of symbolic length costs CBMC far more than two harnesses */
    fn glue(n : usize)
    {
        let r0 : u8 = kani::any();
        let r1 : u8 = kani::any();
        kani::assume(r0 < 4 && r1 < 4);
        let resolve_err : bool = kani::any();
        let rebuild_err : bool = kani::any();
        let tail_err : bool = kani::any();
        unsafe
        {
            N = n;
            RES = [r0, r1];
            RESOLVE_ERR = resolve_err;
            REBUILD_ERR = rebuild_err;
            TAIL_ERR = tail_err;
        }
        let mut paths = Vec::with_capacity(2);
        paths.push(String::from("a"));
        if n == 2 { paths.push(String::from("b")); }
        let mut k = 0u64;
        let blob = Blob::from_paths(paths, |_p|
        {
            let st = FileState { ticket : ticket_of_content(0), timestamp : 7_000_000u64 + k, executable : false };
            k += 1;
            st
        });
        let mut ent = Vec::with_capacity(1);
        ent.push((ticket_foreign(9), crate::blob::verif::fsv1(ticket_of_content(1))));
        let history = crate::history::verif::history_from_entries(ent);
        let mut info = HandleNodeInfo::new(SymSystem {});
        info.blob = blob;
        let mut cmd = Vec::with_capacity(1);
        cmd.push(String::from("x"));
        let ext = RuleExt
        {
            sources_ticket : ticket_foreign(1),
            command : cmd,
            rule_history : history,
            cache : SysCache::new(SymSystem {}, "#"),
            downloader_cache_opt : Some(DownloaderCache::new(vec![])),
            downloader_rule_history_opt : None,
        };
        let r = handle_rule_node(info, ext);
        let any_rebuild = r0 == 3 || (n == 2 && r1 == 3);
        unsafe
        {
            assert!(RESOLVE_CALLS == 1, "[C01][C02] handle_rule_node does not resolve the targets exactly once");
            assert!(ORDER_OK, "[C01][C08] handle_rule_node runs its phases out of order (resolve, then rebuild or re-hash)");
            assert!(ARGS_OK, "[C01][C02][C09] handle_rule_node hands a phase something other than the rule's own sources hash, history, command and targets");
            if resolve_err
            {
                assert!(REBUILD_CALLS == 0 && TAIL_CALLS == 0, "[C04] work continued after resolving the targets failed");
                assert!(r.is_err(), "[C04] a failed resolution was swallowed");
            }
            else if any_rebuild
            {
                kani::cover!(true, "rebuild branch");
                assert!(REBUILD_CALLS == 1, "[C01][C20] a target needs a rebuild but the command was not run (exactly once)");
                assert!(TAIL_CALLS == 0, "[C02] targets re-hashed on the rebuild path");
                match &r
                {
                    Ok(res) =>
                    {
                        assert!(!rebuild_err, "[C04] failed rebuild reported as success");
                        assert!(res.file_state_vec.get_ticket(0) == ticket_foreign(77), "[C01][C03] result of the rebuild is not what is handed on");
                        match res.work_option { WorkOption::CommandExecuted(_) => {}, _ => assert!(false, "[C20] rebuild not reported as 'Built'") }
                    },
                    Err(_) => assert!(rebuild_err, "[C04] successful rebuild reported as failure"),
                }
            }
            else
            {
                kani::cover!(true, "no-rebuild branch");
                assert!(REBUILD_CALLS == 0, "[C02] command run although no target needs a rebuild");
                assert!(TAIL_CALLS == 1, "[C01][C03] hashes for dependents not taken from the targets after resolution");
                match &r
                {
                    Ok(res) =>
                    {
                        assert!(!tail_err, "[C04] a missing target after resolution was swallowed");
                        assert!(res.file_state_vec.get_ticket(0) == ticket_foreign(88), "[C01][C03] hashes handed to dependents are not the ones just taken from the targets");
                        assert!(blob_is_ours_ex(&res.blob, true), "[C09][C20] result does not carry the rule's own targets");
                        match &res.rule_history
                        {
                            Some(h) => assert!(history_is_ours(h), "[C02] history returned for persisting is not the rule's history"),
                            None => assert!(false, "[C02] no history returned for a finished rule"),
                        }
                        match &res.work_option
                        {
                            WorkOption::Resolutions(v) =>
                            {
                                assert!(v.len() == n, "[C20] not exactly one status per target");
                                let mut i = 0;
                                while i < n
                                {
                                    let want = if i == 0 { r0 } else { r1 };
                                    let got = match v[i] { FileResolution::AlreadyCorrect => 0u8, FileResolution::Recovered => 1, FileResolution::Downloaded => 2, FileResolution::NeedsRebuild => 3 };
                                    assert!(got == want, "[C20] status reported for a target is not that target's resolution");
                                    i += 1;
                                }
                            },
                            _ => assert!(false, "[C20] no-rebuild outcome not reported as per-target statuses"),
                        }
                    },
                    Err(WorkError::FileNotFound(p)) =>
                    {
                        assert!(tail_err, "[C04] re-hash succeeded but the rule failed");
                        assert!(p.as_bytes().len() == 1 && p.as_bytes()[0] == b'b', "[C04] missing-target error does not name the file");
                    },
                    Err(_) => assert!(false, "[C04] unexpected error kind on the no-rebuild path"),
                }
            }
        }
        std::mem::forget(r);
    }
}
