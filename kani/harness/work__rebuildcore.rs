
/*  The command-execution core of rebuild_node, calling update_to_match_system_file_state DIRECTLY: a part of its own
    (a change of that signature takes only this part out of the build). */
#[cfg(kani)]
pub mod verif_rebuildcore
{
    use super::*;
    use super::verif::*;
    use crate::symsys::*;
    use crate::fixture::*;
    use crate::prestate::{self, Clock, PreD};
    use crate::ticket::verif::*;
    use crate::blob::FileState;
    use std::cmp::PartialEq;
    use std::clone::Clone;

    /*  The command-execution core of rebuild_node: to_command_script ->
        execute_command -> to_command_line_input -> update_to_match_system_file_state,
        called in rebuild_node's order (rebuild_node itself, with its history
        insert and contradiction mapping, exhausts 45 GB in CBMC's
        post-processing; see DESIGN). */
    fn step_rebuild_core(ntargets : usize)
    {
        let mut raw = any_raw();
        let pre = prestate::decode(&mut raw, ntargets, Clock::Distinct, false);
        install(&pre);
        let fail_code = raw.flag();
        let spawn_error = raw.flag();
        let omit0 = raw.flag();
        let omit1 = raw.flag();
        let first_line_fails = raw.flag();
        fs().cmd.fail_code = fail_code;
        fs().cmd.first_line_fails = first_line_fails;
        fs().cmd.spawn_error = spawn_error;
        fs().cmd.omit = [omit0, omit1 && ntargets == 2];
        let before = [fs().ws[0], fs().ws[1]];
        let other_before = fs().ws[2];
        let mut blob = blob_of(&pre);
        let mut sys = SymSystem {};
        let out = to_command_line_input(sys.execute_command(to_command_script(vec![String::from("x")])));
        let f = fs();
        match out
        {
            Ok(o) =>
            {
                assert!(!fail_code && !spawn_error && !first_line_fails, "[C04] a command one of whose script lines exits non-zero (or cannot be started) was taken for a success");
                std::mem::forget(o);
            },
            Err(WorkError::CommandExecutedButErrored) =>
            {
                kani::cover!(true, "non-zero exit");
                assert!((fail_code || first_line_fails) && !spawn_error, "[C04] non-zero exit reported for a command that did not exit non-zero");
                return;
            },
            Err(WorkError::CommandFailedToExecute(e)) =>
            {
                kani::cover!(true, "spawn error");
                assert!(spawn_error, "[C04] spawn failure reported for a command that started");
                std::mem::forget(e);
                return;
            },
            Err(e) =>
            {
                assert!(false, "[C04] command outcome mapped to an unexpected error");
                std::mem::forget(e);
                return;
            },
        }
        let r = blob.update_to_match_system_file_state(&sys);
        assert!(f.n_renames == 0 && f.n_creates == 0 && f.n_chmods == 0, "[C08][C09] refreshing file states moved or created files");
        assert!(f.ws[2] == other_before, "[C09] an out-of-scope file changed");
        let present0 = f.ws[0].present;
        let present1 = ntargets < 2 || f.ws[1].present;
        match r
        {
            Ok(v) =>
            {
                kani::cover!(true, "rebuild core Ok");
                assert!(present0 && present1, "[C04] a target the command did not produce went unnoticed");
                let mut i = 0;
                while i < ntargets
                {
                    assert!(v.get_ticket(i) == ticket_of_content(f.ws[i].content),
                        "[C01][C03][C18] hash recorded after the command ran is not the hash of the target's content");
                    let st = crate::blob::verif::blob_state(&blob, i);
                    assert!(st.executable == f.ws[i].exec, "[C10] file-state table entry does not record the executable bit");
                    assert!(st.timestamp == 1_000_000u64 * (f.ws[i].mtime as u64), "[C18] file-state table entry does not record the file's mtime");
                    i += 1;
                }
                assert_table_truthful(&blob, ntargets);
                std::mem::forget(v);
            },
            Err(GetCurrentFileInfoError::TargetFileNotFound(p, e)) =>
            {
                kani::cover!(true, "target not generated");
                assert!(!(present0 && present1), "[C04] an existing target reported as not generated");
                let first_missing = if !present0 { 0u8 } else { 1u8 };
                assert!(p.as_bytes().len() == 1 && p.as_bytes()[0] == b'a' + first_missing, "[C04] 'target not generated' does not name the first missing target");
                std::mem::forget(p);
                std::mem::forget(e);
            },
            Err(e) =>
            {
                assert!(false, "[C04] refreshing file states failed with an unexpected error");
                std::mem::forget(e);
            },
        }
        std::mem::forget(blob);
    }

    crate::step_harness!(step_rebuild_core_1t, 4, { step_rebuild_core(1); });
    crate::step_harness!(step_rebuild_core_2t, 4, { step_rebuild_core(2); });
}
