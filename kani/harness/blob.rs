#[cfg(kani)]
pub mod verif
{
    use super::*;
    use crate::symsys::*;
    use crate::fixture::*;
    use crate::prestate::{self, Clock};
    use crate::ticket::verif::*;
    use std::cmp::PartialEq;
    use std::clone::Clone;

    /*  STEP: blob::resolve_single_target from any pre-state under I1, I3, for
        any remembered hash (a universe content or a foreign digest).
        Real code encoded: resolve_single_target, restore_or_download,
        get_file_ticket, get_file_ticket_from_path, TicketFactory::from_file,
        SysCache::{restore_file, back_up_file_with_ticket}. */
    crate::step_harness!(step_resolve_single_target, 4, {
        let mut raw = any_raw();
        let pre = prestate::decode(&mut raw, 1, Clock::Distinct, false);
        install(&pre);
        let foreign = raw.flag();
        let rc : Option<u8> = if foreign { None } else { Some(pre.remembered[0]) };
        let remembered = FileState
        {
            ticket : match rc { Some(c) => ticket_of_content(c), None => ticket_foreign(7) },
            timestamp : 0,
            executable : false,
        };
        let mut sys = SymSystem {};
        let mut cache = SysCache::new(SymSystem {}, "#");
        let info = file_info_of(&pre, 0);
        let before = fs().ws[0];
        let other_before = fs().ws[2];
        let slot_before = match rc { Some(c) => fs().cache[c as usize].present, None => false };

        let r = resolve_single_target(&mut sys, &mut cache, &None, &remembered, &info);

        let f = fs();
        assert!(!f.m_c07_cache_misfiled, "[C07] a cache entry holds content other than the one it is named after");
        assert!(!f.m_c08_overwrite, "[C08] a rename replaced a file holding different content");
        assert!(!f.m_c08_lost, "[C08] content present before the step is neither at a target nor in the cache");
        assert!(!f.m_created_by_ruler, "[C08][C09] ruler created a file or changed permissions itself");
        assert!(!f.m_c09_out_of_scope, "[C09] a mutating call named a path that is neither an in-scope target nor a cache entry");
        assert!(f.ws[2] == other_before, "[C09] an out-of-scope file changed");
        match r
        {
            Ok(FileResolution::AlreadyCorrect) =>
            {
                kani::cover!(true, "AlreadyCorrect reachable");
                assert!(f.n_mutations == 0, "[C20][C02] reported up-to-date but the file system was modified");
                assert!(f.ws[0] == before, "[C20][C02] reported up-to-date but the target changed");
                assert!(f.ws[0].present && Some(f.ws[0].content) == rc, "[C01][C18][C20] reported up-to-date but the target does not hold the remembered content");
            },
            Ok(FileResolution::Recovered) =>
            {
                kani::cover!(true, "Recovered reachable");
                assert!(f.restored_into[0], "[C20] reported recovered but nothing was moved in from the cache");
                assert!(f.ws[0].present && Some(f.ws[0].content) == rc, "[C01][C07] recovered file is not the remembered content");
                assert!(slot_before, "[C20] reported recovered although the cache did not hold the content");
            },
            Ok(FileResolution::NeedsRebuild) =>
            {
                kani::cover!(true, "NeedsRebuild reachable");
                assert!(!f.ws[0].present, "[C08] target left in place although it is to be rebuilt over");
                assert!(!slot_before, "[C02] the cache held the remembered content but the target is declared in need of a rebuild");
                assert!(!(before.present && Some(before.content) == rc), "[C02] the target held the remembered content but is declared in need of a rebuild");
            },
            Ok(FileResolution::Downloaded) =>
            {
                assert!(false, "[C20] reported downloaded with the downloader off");
            },
            Err(_) =>
            {
                assert!(false, "[C04] resolving a target failed although nothing is wrong with the cache or the file");
            },
        }
    });

    /*  table entry i of a blob, without cloning the vector */
    pub fn blob_state(b : &Blob, i : usize) -> &FileState
    {
        &b.file_infos[i].file_state
    }

    /*  one-element FileStateVec without going through the growth path of an empty Vec */
    pub fn fsv1(t : Ticket) -> FileStateVec
    {
        let mut infos = Vec::with_capacity(1);
        infos.push(FileState { ticket : t, timestamp : 0, executable : false });
        FileStateVec { infos : infos }
    }

    /*  Exact replacement for the derived `FileStateVec::clone` on vectors of at most 2 entries
        (the harness domain; longer vectors are a harness-domain error): the generic Vec clone is
        a symbolic-length copy into a fresh allocation, which exhausts CBMC's memory in
        rebuild_node. */
    pub fn fsv_clone_small(v : &FileStateVec) -> FileStateVec
    {
        let n = v.infos.len();
        assert!(n <= 2, "FileStateVec clone stub: more than 2 entries");
        let mut infos = Vec::with_capacity(2);
        if n >= 1
        {
            infos.push(FileState { ticket : Ticket::clone(&v.infos[0].ticket), timestamp : v.infos[0].timestamp, executable : v.infos[0].executable });
        }
        if n >= 2
        {
            infos.push(FileState { ticket : Ticket::clone(&v.infos[1].ticket), timestamp : v.infos[1].timestamp, executable : v.infos[1].executable });
        }
        FileStateVec { infos : infos }
    }

    /*  FileStateVec of the given tickets without the growth path of an empty Vec */
    pub fn fsv_of(tickets : Vec<Ticket>) -> FileStateVec
    {
        let mut infos = Vec::with_capacity(2);
        for t in tickets
        {
            infos.push(FileState { ticket : t, timestamp : 0, executable : false });
        }
        FileStateVec { infos : infos }
    }

    pub fn fsv_from_states(infos : Vec<FileState>) -> FileStateVec
    {
        FileStateVec { infos : infos }
    }

    pub fn blob_path(b : &Blob, i : usize) -> &String
    {
        &b.file_infos[i].path
    }

    pub fn blob_len(b : &Blob) -> usize
    {
        b.file_infos.len()
    }
}
