
/*  C13: two parser-producible rules have the same identity exactly when they
    have the same sorted targets, the same sorted sources and the same command
    lines in order.  The digest runs in RECORD mode: under the ideal-hash
    assumption (no SHA-256 collisions) ticket equality IS equality of the byte
    streams hashed, so the harness compares the recorded streams. */
#[cfg(kani)]
pub mod verif_identity
{
    use super::*;
    use std::clone::Clone;
    use std::cmp::PartialEq;

    /*  a string of 1..=2 bytes over {a, b, ':', ' '}; never empty, never a lone ':' (the parser's
        section terminator), no newline */
    #[derive(Clone, Copy)]
    pub struct S { pub len : usize, pub b : [u8; 2] }

    fn any_char() -> u8
    {
        let k : u8 = kani::any();
        kani::assume(k < 4);
        match k { 0 => b'a', 1 => b'b', 2 => b':', _ => b' ' }
    }

    fn any_s() -> S
    {
        let len : usize = kani::any();
        kani::assume(len == 1 || len == 2);
        let b = [any_char(), any_char()];
        kani::assume(!(len == 1 && b[0] == b':'));
        S { len, b }
    }

    /*  bytes are pushed onto the underlying Vec<u8> (all ASCII): String::push(char) on a symbolic
        char makes CBMC explore the multi-byte UTF-8 encoder and a symbolic-length extend */
    fn mk(s : &S) -> String
    {
        let mut v : Vec<u8> = Vec::with_capacity(2);
        v.push(s.b[0]);
        if s.len == 2 { v.push(s.b[1]); }
        unsafe { String::from_utf8_unchecked(v) }
    }

    fn eq(a : &S, b : &S) -> bool
    {
        a.len == b.len && a.b[0] == b.b[0] && (a.len == 1 || a.b[1] == b.b[1])
    }

    /*  a <= b in byte-wise lexicographic order (what String's Ord is) */
    fn le(a : &S, b : &S) -> bool
    {
        if a.b[0] != b.b[0] { return a.b[0] < b.b[0]; }
        if a.len == 1 { return true; }
        if b.len == 1 { return false; }
        a.b[1] <= b.b[1]
    }

    #[derive(Clone, Copy)]
    pub struct L { pub n : usize, pub s : [S; 2] }

    fn any_l(min : usize) -> L
    {
        let n : usize = kani::any();
        kani::assume(n >= min && n <= 2);
        L { n, s : [any_s(), any_s()] }
    }

    /*  Vectors are built with a CONCRETE length on every path (a Vec whose length is symbolic makes
        `Vec::clone` allocate a symbolic-size object, which CBMC's array encoding cannot digest):
        the shape (number of targets, sources, command lines) is dispatched on explicitly and
        get_ticket is called inside each branch. */
    fn mkv_n(l : &L, n : usize) -> Vec<String>
    {
        let mut v = Vec::with_capacity(2);
        if n >= 1 { v.push(mk(&l.s[0])); }
        if n >= 2 { v.push(mk(&l.s[1])); }
        v
    }

    fn go(t : &L, s : &L, c : &L, nt : usize, ns : usize, nc : usize) -> ([u8; crypto::RCAP], usize)
    {
        let r = Rule::new(mkv_n(t, nt), mkv_n(s, ns), mkv_n(c, nc));
        let ticket = r.get_ticket();
        std::mem::forget(r);
        std::mem::forget(ticket);
        unsafe { (crypto::LAST_STREAM, crypto::LAST_LEN) }
    }

    fn sorted(l : &L) -> L
    {
        if l.n == 2 && !le(&l.s[0], &l.s[1]) { L { n : 2, s : [l.s[1], l.s[0]] } } else { *l }
    }

    fn eq_l(a : &L, b : &L) -> bool
    {
        a.n == b.n && (a.n < 1 || eq(&a.s[0], &b.s[0])) && (a.n < 2 || eq(&a.s[1], &b.s[1]))
    }

    /*  Ticket::from_strings called directly (no is_sorted / sort in front) */
    fn go_ser(t : &L, s : &L, c : &L, nt : usize, ns : usize, nc : usize) -> ([u8; crypto::RCAP], usize)
    {
        let (tv, sv, cv) = (mkv_n(t, nt), mkv_n(s, ns), mkv_n(c, nc));
        let ticket = Ticket::from_strings(&tv, &sv, &cv);
        std::mem::forget(tv);
        std::mem::forget(sv);
        std::mem::forget(cv);
        std::mem::forget(ticket);
        unsafe { (crypto::LAST_STREAM, crypto::LAST_LEN) }
    }

    fn same_streams(st1 : &[u8; crypto::RCAP], n1 : usize, st2 : &[u8; crypto::RCAP], n2 : usize) -> bool
    {
        /*  the recorder zero-fills beyond the stream's length: equal streams = equal length and
            equal 48-byte records, compared as six 64-bit words (no loop) */
        let w = |x : &[u8; crypto::RCAP], k : usize| -> u64
        {
            u64::from_le_bytes([x[k], x[k+1], x[k+2], x[k+3], x[k+4], x[k+5], x[k+6], x[k+7]])
        };
        n1 == n2
            && w(st1, 0) == w(st2, 0) && w(st1, 8) == w(st2, 8) && w(st1, 16) == w(st2, 16)
            && w(st1, 24) == w(st2, 24) && w(st1, 32) == w(st2, 32) && w(st1, 40) == w(st2, 40)
    }

    /*  (i) the serialisation hashed by Ticket::from_strings is injective: two (targets, sources,
        command) triples of the given shapes give the same stream iff they are equal */
    fn serialisation_injective(a : (usize, usize, usize), b : (usize, usize, usize))
    {
        unsafe { crypto::RECORD = true; }
        let (t1, s1, c1) = (any_l_n(a.0), any_l_n(a.1), any_l_n(a.2));
        let (t2, s2, c2) = (any_l_n(b.0), any_l_n(b.1), any_l_n(b.2));
        let (st1, n1) = go_ser(&t1, &s1, &c1, a.0, a.1, a.2);
        let (st2, n2) = go_ser(&t2, &s2, &c2, b.0, b.1, b.2);
        let same = eq_l(&t1, &t2) && eq_l(&s1, &s2) && eq_l(&c1, &c2);
        kani::cover!(!same && n1 == n2, "different triples whose streams have equal length (a near miss)");
        if same
        {
            assert!(same_streams(&st1, n1, &st2, n2), "[C13] the identity of a rule is not a function of its targets, sources and command");
        }
        else
        {
            assert!(!same_streams(&st1, n1, &st2, n2), "[C13] two different rules get the same identity (the hashed serialisation is ambiguous or drops a field)");
        }
    }

    /*  (ii) Rule::get_ticket hashes the canonical form: whatever order the targets and sources are
        written in, the stream is that of from_strings(sorted targets, sorted sources, command) */
    fn identity_is_canonical(a : (usize, usize, usize))
    {
        unsafe { crypto::RECORD = true; }
        let (t, s, c) = (any_l_n(a.0), any_l_n(a.1), any_l_n(a.2));
        kani::assume(a.0 < 2 || !eq(&t.s[0], &t.s[1]));
        kani::assume(a.1 < 2 || !eq(&s.s[0], &s.s[1]));
        let (st1, n1) = go(&t, &s, &c, a.0, a.1, a.2);
        let (st2, n2) = go_ser(&sorted(&t), &sorted(&s), &c, a.0, a.1, a.2);
        kani::cover!(a.0 < 2 || !le(&t.s[0], &t.s[1]), "targets written out of order (if there are two)");
        kani::cover!(a.1 < 2 || !le(&s.s[0], &s.s[1]), "sources written out of order (if there are two)");
        assert!(same_streams(&st1, n1, &st2, n2), "[C13] re-ordering the target or source lines of a rule changes its identity (or the identity is not computed from the sorted lists)");
    }

    fn any_l_n(n : usize) -> L
    {
        L { n, s : [any_s(), any_s()] }
    }

    /*  two rules of CONCRETE shapes (numbers of targets / sources / command lines), symbolic strings */
    /*  mode 0: two arbitrary rules.  mode 1: both written in canonical (sorted) order.  mode 2: the
        second rule is the first with its two targets and its two sources swapped.  Modes 1 and 2
        together give mode 0 for pairs of rules that both have two targets or two sources, at the
        price of one trip through get_ticket's clone-and-sort path instead of two. */
    fn identity_shapes(a : (usize, usize, usize), b : (usize, usize, usize))
    {
        identity_shapes_mode(a, b, 0);
    }

    fn identity_shapes_mode(a : (usize, usize, usize), b : (usize, usize, usize), mode : u8)
    {
        unsafe { crypto::RECORD = true; }
        let (t1, s1, c1) = (any_l_n(a.0), any_l_n(a.1), any_l_n(a.2));
        let (mut t2, mut s2, mut c2) = (any_l_n(b.0), any_l_n(b.1), any_l_n(b.2));
        if mode == 1
        {
            kani::assume(a.0 < 2 || le(&t1.s[0], &t1.s[1]));
            kani::assume(a.1 < 2 || le(&s1.s[0], &s1.s[1]));
            kani::assume(b.0 < 2 || le(&t2.s[0], &t2.s[1]));
            kani::assume(b.1 < 2 || le(&s2.s[0], &s2.s[1]));
        }
        if mode == 2
        {
            kani::assume(a.0 < 2 || le(&t1.s[0], &t1.s[1]));
            kani::assume(a.1 < 2 || le(&s1.s[0], &s1.s[1]));
            t2 = L { n : t1.n, s : [t1.s[1], t1.s[0]] };
            if a.0 < 2 { t2 = t1; }
            s2 = L { n : s1.n, s : [s1.s[1], s1.s[0]] };
            if a.1 < 2 { s2 = s1; }
            c2 = c1;
        }
        /*  within a rule the parser merges repeated paths */
        kani::assume(a.0 < 2 || !eq(&t1.s[0], &t1.s[1]));
        kani::assume(a.1 < 2 || !eq(&s1.s[0], &s1.s[1]));
        kani::assume(b.0 < 2 || !eq(&t2.s[0], &t2.s[1]));
        kani::assume(b.1 < 2 || !eq(&s2.s[0], &s2.s[1]));
        let (st1, n1) = go(&t1, &s1, &c1, a.0, a.1, a.2);
        let (st2, n2) = go(&t2, &s2, &c2, b.0, b.1, b.2);
        /*  the recorder zero-fills beyond the stream's length, so equal streams = equal length and
            equal 48-byte records; compared as six 64-bit words (no loop) */
        let w = |x : &[u8; crypto::RCAP], k : usize| -> u64
        {
            u64::from_le_bytes([x[k], x[k+1], x[k+2], x[k+3], x[k+4], x[k+5], x[k+6], x[k+7]])
        };
        let same_stream = n1 == n2
            && w(&st1, 0) == w(&st2, 0) && w(&st1, 8) == w(&st2, 8) && w(&st1, 16) == w(&st2, 16)
            && w(&st1, 24) == w(&st2, 24) && w(&st1, 32) == w(&st2, 32) && w(&st1, 40) == w(&st2, 40);
        let same_rule = eq_l(&sorted(&t1), &sorted(&t2)) && eq_l(&sorted(&s1), &sorted(&s2)) && eq_l(&c1, &c2);
        let same_shape = a.0 == b.0 && a.1 == b.1 && a.2 == b.2;
        kani::cover!(if same_shape { !same_rule && n1 == n2 } else { n1 == n2 }, "different rules whose streams have equal length (a near miss)");
        kani::cover!(!same_shape || same_rule, "the same rule twice (same-shape pairs only)");
        if mode == 2 { assert!(same_rule, "harness: a swapped spelling is the same rule"); }
        if same_rule
        {
            assert!(same_stream, "[C13] two spellings of one rule (same targets, sources and command; lines in another order) get different identities");
        }
        else
        {
            assert!(!same_stream, "[C13] two different rules get the same identity (the hashed serialisation is ambiguous or drops a field)");
        }
    }

    macro_rules! identity_harness
    {
        ($name:ident, $a:expr, $b:expr) =>
        {
            #[kani::proof]
            #[kani::unwind(4)]
            #[kani::stub(alloc::alloc::dealloc, crate::stubs::dealloc_noop)]
            #[kani::stub(<std::string::String as Clone>::clone, crate::stubs::string_clone_short)]
            fn $name() { identity_shapes($a, $b); }
        };
    }

    macro_rules! identity_harness_mode
    {
        ($name:ident, $a:expr, $b:expr, $mode:literal) =>
        {
            #[kani::proof]
            #[kani::unwind(4)]
            #[kani::stub(alloc::alloc::dealloc, crate::stubs::dealloc_noop)]
            #[kani::stub(<std::string::String as Clone>::clone, crate::stubs::string_clone_short)]
            fn $name() { identity_shapes_mode($a, $b, $mode); }
        };
    }

    macro_rules! ser_harness
    {
        ($name:ident, $a:expr, $b:expr) =>
        {
            #[kani::proof]
            #[kani::unwind(4)]
            #[kani::stub(alloc::alloc::dealloc, crate::stubs::dealloc_noop)]
            fn $name() { serialisation_injective($a, $b); }
        };
    }
    ser_harness!(ser_222_222, (2, 2, 2), (2, 2, 2));
    ser_harness!(ser_102_102, (1, 0, 2), (1, 0, 2));
    ser_harness!(ser_120_111, (1, 2, 0), (1, 1, 1));
    ser_harness!(ser_212_221, (2, 1, 2), (2, 2, 1));
    ser_harness!(ser_122_212, (1, 2, 2), (2, 1, 2));
    ser_harness!(ser_202_211, (2, 0, 2), (2, 1, 1));

    #[kani::proof]
    #[kani::unwind(4)]
    #[kani::stub(alloc::alloc::dealloc, crate::stubs::dealloc_noop)]
    #[kani::stub(<std::string::String as Clone>::clone, crate::stubs::string_clone_short)]
    fn canon_221() { identity_is_canonical((2, 2, 1)); }

    #[kani::proof]
    #[kani::unwind(4)]
    #[kani::stub(alloc::alloc::dealloc, crate::stubs::dealloc_noop)]
    #[kani::stub(<std::string::String as Clone>::clone, crate::stubs::string_clone_short)]
    fn canon_211() { identity_is_canonical((2, 1, 1)); }

    #[kani::proof]
    #[kani::unwind(4)]
    #[kani::stub(alloc::alloc::dealloc, crate::stubs::dealloc_noop)]
    #[kani::stub(<std::string::String as Clone>::clone, crate::stubs::string_clone_short)]
    fn canon_121() { identity_is_canonical((1, 2, 1)); }

    /*  same shape with two targets / two sources on both sides: canonical spellings + swapped spelling */
    identity_harness_mode!(identity_201_201_sorted, (2, 0, 1), (2, 0, 1), 1);
    identity_harness_mode!(identity_201_swapped, (2, 0, 1), (2, 0, 1), 2);
    identity_harness_mode!(identity_121_121_sorted, (1, 2, 1), (1, 2, 1), 1);
    identity_harness_mode!(identity_121_swapped, (1, 2, 1), (1, 2, 1), 2);
    /*  same shape: one-character differences, split/merged strings */
    identity_harness!(identity_102_102, (1, 0, 2), (1, 0, 2));
    /*  a string moved across a section boundary */
    identity_harness!(identity_201_111, (2, 0, 1), (1, 1, 1));
    identity_harness!(identity_121_112, (1, 2, 1), (1, 1, 2));
    identity_harness!(identity_211_121, (2, 1, 1), (1, 2, 1));
    /*  split / merged command lines, added / removed source */
    identity_harness!(identity_112_111, (1, 1, 2), (1, 1, 1));
    identity_harness!(identity_102_111, (1, 0, 2), (1, 1, 1));
    identity_harness!(identity_111_101, (1, 1, 1), (1, 0, 1));
}
