
/*  C13: two parser-producible rules have the same identity exactly when they
    have the same sorted targets, the same sorted sources and the same command
    lines in order.  The digest runs in RECORD mode: under the ideal-hash
    assumption (no SHA-256 collisions) ticket equality IS equality of the byte
    streams hashed, so the harness compares the recorded streams. */
#[cfg(kani)]
pub mod verif_identity
{
    use super::*;
    use std::clone::Clone;
    use std::cmp::PartialEq;

    /*  a string of 1..=2 bytes over {a, b, ':', ' '}; never empty, never a lone ':' (the parser's
        section terminator), no newline */
    #[derive(Clone, Copy)]
    pub struct S { pub len : usize, pub b : [u8; 2] }

    fn any_char() -> u8
    {
        let k : u8 = kani::any();
        kani::assume(k < 4);
        match k { 0 => b'a', 1 => b'b', 2 => b':', _ => b' ' }
    }

    fn any_s() -> S
    {
        let len : usize = kani::any();
        kani::assume(len == 1 || len == 2);
        let b = [any_char(), any_char()];
        kani::assume(!(len == 1 && b[0] == b':'));
        S { len, b }
    }

    fn mk(s : &S) -> String
    {
        let mut r = String::with_capacity(2);
        r.push(s.b[0] as char);
        if s.len == 2 { r.push(s.b[1] as char); }
        r
    }

    fn eq(a : &S, b : &S) -> bool
    {
        a.len == b.len && a.b[0] == b.b[0] && (a.len == 1 || a.b[1] == b.b[1])
    }

    /*  a <= b in byte-wise lexicographic order (what String's Ord is) */
    fn le(a : &S, b : &S) -> bool
    {
        if a.b[0] != b.b[0] { return a.b[0] < b.b[0]; }
        if a.len == 1 { return true; }
        if b.len == 1 { return false; }
        a.b[1] <= b.b[1]
    }

    #[derive(Clone, Copy)]
    pub struct L { pub n : usize, pub s : [S; 2] }

    fn any_l(min : usize) -> L
    {
        let n : usize = kani::any();
        kani::assume(n >= min && n <= 2);
        L { n, s : [any_s(), any_s()] }
    }

    /*  Vectors are built with a CONCRETE length on every path (a Vec whose length is symbolic makes
        `Vec::clone` allocate a symbolic-size object, which CBMC's array encoding cannot digest):
        the shape (number of targets, sources, command lines) is dispatched on explicitly and
        get_ticket is called inside each branch. */
    fn mkv_n(l : &L, n : usize) -> Vec<String>
    {
        let mut v = Vec::with_capacity(2);
        if n >= 1 { v.push(mk(&l.s[0])); }
        if n >= 2 { v.push(mk(&l.s[1])); }
        v
    }

    fn go(t : &L, s : &L, c : &L, nt : usize, ns : usize, nc : usize) -> ([u8; crypto::RCAP], usize)
    {
        let r = Rule::new(mkv_n(t, nt), mkv_n(s, ns), mkv_n(c, nc));
        let ticket = r.get_ticket();
        std::mem::forget(r);
        std::mem::forget(ticket);
        unsafe { (crypto::LAST_STREAM, crypto::LAST_LEN) }
    }

    fn sorted(l : &L) -> L
    {
        if l.n == 2 && !le(&l.s[0], &l.s[1]) { L { n : 2, s : [l.s[1], l.s[0]] } } else { *l }
    }

    fn eq_l(a : &L, b : &L) -> bool
    {
        a.n == b.n && (a.n < 1 || eq(&a.s[0], &b.s[0])) && (a.n < 2 || eq(&a.s[1], &b.s[1]))
    }

    fn stream_of(t : &L, s : &L, c : &L) -> ([u8; crypto::RCAP], usize)
    {
        if t.n == 1
        {
            if s.n == 0 { if c.n == 1 { go(t, s, c, 1, 0, 1) } else { go(t, s, c, 1, 0, 2) } }
            else if s.n == 1 { if c.n == 1 { go(t, s, c, 1, 1, 1) } else { go(t, s, c, 1, 1, 2) } }
            else { if c.n == 1 { go(t, s, c, 1, 2, 1) } else { go(t, s, c, 1, 2, 2) } }
        }
        else
        {
            if s.n == 0 { if c.n == 1 { go(t, s, c, 2, 0, 1) } else { go(t, s, c, 2, 0, 2) } }
            else if s.n == 1 { if c.n == 1 { go(t, s, c, 2, 1, 1) } else { go(t, s, c, 2, 1, 2) } }
            else { if c.n == 1 { go(t, s, c, 2, 2, 1) } else { go(t, s, c, 2, 2, 2) } }
        }
    }

    #[kani::proof]
    #[kani::unwind(4)]
    #[kani::stub(alloc::alloc::dealloc, crate::stubs::dealloc_noop)]
    #[kani::stub(<std::string::String as Clone>::clone, crate::stubs::string_clone_short)]
    fn identity_pair()
    {
        unsafe { crypto::RECORD = true; }
        let (t1, s1, c1) = (any_l(1), any_l(0), any_l(1));
        let (t2, s2, c2) = (any_l(1), any_l(0), any_l(1));
        let (st1, n1) = stream_of(&t1, &s1, &c1);
        let (st2, n2) = stream_of(&t2, &s2, &c2);
        /*  the recorder zero-fills beyond the stream's length, so equal streams = equal length and
            equal 48-byte records; compared as six 64-bit words (no loop) */
        let w = |a : &[u8; crypto::RCAP], k : usize| -> u64
        {
            u64::from_le_bytes([a[k], a[k+1], a[k+2], a[k+3], a[k+4], a[k+5], a[k+6], a[k+7]])
        };
        let same_stream = n1 == n2
            && w(&st1, 0) == w(&st2, 0) && w(&st1, 8) == w(&st2, 8) && w(&st1, 16) == w(&st2, 16)
            && w(&st1, 24) == w(&st2, 24) && w(&st1, 32) == w(&st2, 32) && w(&st1, 40) == w(&st2, 40);
        let same_rule = eq_l(&sorted(&t1), &sorted(&t2)) && eq_l(&sorted(&s1), &sorted(&s2)) && eq_l(&c1, &c2);
        kani::cover!(same_rule && !eq_l(&t1, &t2), "same rule written with its targets in another order");
        kani::cover!(!same_rule && n1 == n2, "different rules with streams of equal length");
        if same_rule
        {
            assert!(same_stream, "[C13] two spellings of one rule (same targets, sources and command; lines in another order) get different identities");
        }
        else
        {
            assert!(!same_stream, "[C13] two different rules get the same identity (the hashed serialisation is ambiguous or drops a field)");
        }
    }
}
