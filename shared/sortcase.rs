//! Shared between the Kani harness crate and the native replay crate: decoding
//! of a raw byte vector into a small rule set for the dependency sorter (C12),
//! and the independent oracle (duplicate targets, goal lookup, reachability,
//! cycles by transitive closure on the adjacency matrix).

use crate::prestate::Raw;
use crate::vassume;

pub const NR : usize = 3;
pub const TNAMES : [u8; 4] = [b'a', b'b', b'c', b'd'];
pub const SNAMES : [u8; 6] = [b'a', b'b', b'c', b'd', b'p', b'q'];

#[derive(Clone, Copy, Debug)]
pub struct RuleD
{
    pub nt : usize,         // 1..=2 targets
    pub t : [u8; 2],        // target names (bytes), distinct within the rule
    pub ns : usize,         // 0..=2 sources
    pub s : [u8; 2],        // source names, distinct within the rule
}

#[derive(Clone, Copy, Debug)]
pub struct CaseD
{
    pub n : usize,              // number of rules, 1..=NR
    pub rules : [RuleD; NR],
    pub goal : Option<u8>,      // None = sort all
    pub rot : usize,            // input order: rules are handed over rotated by `rot` and, if `flip`, reversed
    pub flip : bool,
}

/*  `fixed_n` / `fixed_ns`: harness variants with concrete vector lengths (a Vec of symbolic
    length costs CBMC far more than the case split); the raw layout is the same either way. */
/*  `fixed_targets`: rule i's (first) target is the i-th of a, b, c -- the rules arrive sorted by
    target, as rules_to_frame_buffer makes them; since the edges stay symbolic this still covers
    every labelling of a 3-rule graph up to the renaming that sorting performs. */
pub fn decode(raw : &mut Raw, two_target_rule : bool, fixed_n : Option<usize>, fixed_ns : Option<usize>) -> CaseD
{
    decode_ex(raw, two_target_rule, fixed_n, fixed_ns, false)
}

pub fn decode_ex(raw : &mut Raw, two_target_rule : bool, fixed_n : Option<usize>, fixed_ns : Option<usize>, fixed_targets : bool) -> CaseD
{
    let n_raw = 1 + raw.below(NR as u8) as usize;
    let n = match fixed_n { Some(k) => k, None => n_raw };
    let mut rules = [RuleD { nt : 1, t : [0, 0], ns : 0, s : [0, 0] }; NR];
    let mut i = 0;
    while i < NR
    {
        let nt = if two_target_rule && i == 0 { 1 + raw.below(2) as usize } else { 1 };
        let t0_raw = TNAMES[raw.below(4) as usize];
        let t0 = if fixed_targets { TNAMES[i] } else { t0_raw };
        let t1_raw = TNAMES[raw.below(4) as usize];
        /*  with fixed targets a second target can only be d (keeps the rule order fixed) */
        let t1 = if fixed_targets { TNAMES[3] } else { t1_raw };
        if nt == 2 { vassume(t0 != t1); }
        let ns_raw = raw.below(3) as usize;
        let ns = match fixed_ns { Some(k) => k, None => ns_raw };
        let s0 = SNAMES[raw.below(6) as usize];
        let s1 = SNAMES[raw.below(6) as usize];
        if ns == 2 { vassume(s0 != s1); }
        rules[i] = RuleD { nt, t : [t0, t1], ns, s : [s0, s1] };
        i += 1;
    }
    let has_goal = raw.flag();
    let g = SNAMES[raw.below(6) as usize];
    let rot_raw = raw.below(NR as u8) as usize;
    let flip_raw = raw.flag();
    let (rot, flip) = if fixed_targets { (0, false) } else { (rot_raw, flip_raw) };
    CaseD { n, rules, goal : if has_goal { Some(g) } else { None }, rot, flip }
}

#[derive(Clone, Copy, Debug, PartialEq, Eq)]
pub enum Expect
{
    DuplicateTarget,            // some name is a target twice
    GoalMissing,                // goal given and no rule's target
    Cycle { self_dep : bool, longer : bool },   // a cycle is reachable: which kinds exist among the reachable rules
    Plan { in_plan : [bool; NR] },
}

fn is_target_of(r : &RuleD, name : u8) -> bool
{
    r.t[0] == name || (r.nt == 2 && r.t[1] == name)
}

fn has_source(r : &RuleD, q : usize) -> bool { q < r.ns }

pub fn producer(c : &CaseD, name : u8) -> Option<usize>
{
    let mut i = 0;
    while i < NR
    {
        if i < c.n && is_target_of(&c.rules[i], name) { return Some(i); }
        i += 1;
    }
    None
}

pub fn duplicate_target(c : &CaseD) -> bool
{
    let mut dup = false;
    let mut i = 0;
    while i < NR
    {
        let mut j = 0;
        while j < NR
        {
            if i < j && j < c.n
            {
                let a = &c.rules[i];
                let b = &c.rules[j];
                if is_target_of(b, a.t[0]) || (a.nt == 2 && is_target_of(b, a.t[1])) { dup = true; }
            }
            j += 1;
        }
        i += 1;
    }
    dup
}

/*  edge[i][j]: rule i has a source that rule j produces */
pub fn edges(c : &CaseD) -> [[bool; NR]; NR]
{
    let mut e = [[false; NR]; NR];
    let mut i = 0;
    while i < NR
    {
        let mut j = 0;
        while j < NR
        {
            if i < c.n && j < c.n
            {
                let r = &c.rules[i];
                if (has_source(r, 0) && is_target_of(&c.rules[j], r.s[0])) || (has_source(r, 1) && is_target_of(&c.rules[j], r.s[1]))
                {
                    e[i][j] = true;
                }
            }
            j += 1;
        }
        i += 1;
    }
    e
}

/*  transitive closure (paths of length >= 1), NR = 3: two squarings suffice */
pub fn closure(e : &[[bool; NR]; NR]) -> [[bool; NR]; NR]
{
    let mut p = *e;
    let mut round = 0;
    while round < 2
    {
        let mut q = p;
        let mut i = 0;
        while i < NR
        {
            let mut j = 0;
            while j < NR
            {
                let mut k = 0;
                while k < NR
                {
                    if p[i][k] && p[k][j] { q[i][j] = true; }
                    k += 1;
                }
                j += 1;
            }
            i += 1;
        }
        p = q;
        round += 1;
    }
    p
}

pub fn expected(c : &CaseD) -> Expect
{
    if duplicate_target(c) { return Expect::DuplicateTarget; }
    let e = edges(c);
    let p = closure(&e);
    let mut in_plan = [false; NR];
    match c.goal
    {
        Some(g) =>
        {
            match producer(c, g)
            {
                None => return Expect::GoalMissing,
                Some(r) =>
                {
                    in_plan[r] = true;
                    let mut j = 0;
                    while j < NR { if p[r][j] { in_plan[j] = true; } j += 1; }
                },
            }
        },
        None =>
        {
            let mut i = 0;
            while i < NR { if i < c.n { in_plan[i] = true; } i += 1; }
        },
    }
    let mut self_dep = false;
    let mut longer = false;
    let mut i = 0;
    while i < NR
    {
        if in_plan[i]
        {
            if e[i][i] { self_dep = true; }
            /*  a cycle through i that is not just its self-loop */
            let mut j = 0;
            while j < NR
            {
                if j != i && e[i][j] && (p[j][i]) { longer = true; }
                j += 1;
            }
        }
        i += 1;
    }
    if self_dep || longer { return Expect::Cycle { self_dep, longer }; }
    Expect::Plan { in_plan }
}

/*  the order in which the rules are handed to the sorter: the first c.n entries are a
    permutation of 0..c.n (rotation by `rot`, reversed if `flip`) */
pub fn input_order(c : &CaseD) -> [usize; NR]
{
    let mut o = [0usize; NR];
    let mut k = 0;
    while k < NR
    {
        if k < c.n
        {
            let base = if c.flip { c.n - 1 - k } else { k };
            o[k] = (base + c.rot) % c.n;
        }
        k += 1;
    }
    o
}
