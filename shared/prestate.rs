//! Shared between the Kani harness crate and the native replay crate
//! (`#[path]`-included by both): the decoding of a raw byte vector into the
//! symbolic pre-state of a step harness.  Under Kani the raw bytes are
//! `kani::any()`; natively they are the solver's counterexample, so the replay
//! starts from exactly the state the solver chose.
//!
//! The including crate provides `crate::vassume(bool)` (kani::assume under
//! Kani; "assumption violated" flag natively).

use crate::vassume;

/*  Harness-side loops are unrolled by hand so that a small global unwind bound
    (which also applies to every loop of the code under test) suffices. */
#[macro_export]
macro_rules! unroll3 { ($i:ident, $body:block) => { { let $i : usize = 0; $body } { let $i : usize = 1; $body } { let $i : usize = 2; $body } } }
#[macro_export]
macro_rules! unroll4 { ($i:ident, $body:block) => { { let $i : usize = 0; $body } { let $i : usize = 1; $body } { let $i : usize = 2; $body } { let $i : usize = 3; $body } } }
#[macro_export]
macro_rules! unroll5 { ($i:ident, $body:block) => { { let $i : usize = 0; $body } { let $i : usize = 1; $body } { let $i : usize = 2; $body } { let $i : usize = 3; $body } { let $i : usize = 4; $body } } }
#[macro_export]
macro_rules! unroll6 { ($i:ident, $body:block) => { { let $i : usize = 0; $body } { let $i : usize = 1; $body } { let $i : usize = 2; $body } { let $i : usize = 3; $body } { let $i : usize = 4; $body } { let $i : usize = 5; $body } } }


pub const NRAW : usize = 80;
pub const MT : u8 = 8;          // mtime domain 0..MT-1 (whole seconds)
pub const NCONTENT : u8 = 4;    // content ids 0..3: the file's bytes are [id]
pub const EMPTY : u8 = 4;       // the zero-length file

#[derive(Clone, Copy)]
pub struct Raw
{
    pub bytes : [u8; NRAW],
    pub pos : usize,
}

impl Raw
{
    pub fn below(&mut self, n : u8) -> u8
    {
        let v = self.bytes[self.pos];
        self.pos += 1;
        vassume(v < n);
        v
    }

    pub fn flag(&mut self) -> bool
    {
        self.below(2) == 1
    }
}

#[derive(Clone, Copy, PartialEq, Eq, Debug)]
pub struct SlotD
{
    pub present : bool,
    pub content : u8,
    pub mtime : u8,
    pub exec : bool,
}

#[derive(Clone, Copy, PartialEq, Eq, Debug)]
pub struct TableD
{
    pub known : bool,   // false: no entry in the file-state table -> FileState::empty()
    pub content : u8,   // entry's hash = H(content)
    pub mtime : u8,
    pub exec : bool,
}


#[derive(Clone, Copy, PartialEq, Eq, Debug)]
pub enum Clock
{
    Distinct,   // I3: a table entry (h,m) is truthful for every file with mtime m
    Coarse,     // I3c: truthful only for the file at its own path
}

#[derive(Clone, Copy, Debug)]
pub struct PreD
{
    pub ntargets : usize,
    pub ws : [SlotD; 3],        // "a","b" targets (first ntargets), "c" out-of-scope file
    pub cache : [SlotD; 5],     // slot k holds content k (I1); 4 = empty file
    pub table : [TableD; 2],
    pub fresh : u8,             // mtime of the command's write to target 0
    pub fresh2 : u8,            // mtime of its write to target 1 (a distinct write: differs from `fresh` under Clock::Distinct)
    pub out : [u8; 2],          // what the deterministic command writes to target i
    pub exec_out : [bool; 2],
    pub has_history : bool,     // the rule history has an entry for the current sources hash
    pub remembered : [u8; 2],   // remembered hash of target i = H(content remembered[i])
}

fn slot(raw : &mut Raw) -> SlotD
{
    let present = raw.flag();
    let content = raw.below(EMPTY + 1);
    let mtime = raw.below(MT);
    let exec = raw.flag();
    SlotD { present, content, mtime, exec }
}

/*  Draw a pre-state constrained only by I1, I3/I3c and the fresh-mtime
    assumption.  `truthful_history`: also assume I2 (remembered_i = H(out_i)). */
pub fn decode(raw : &mut Raw, ntargets : usize, clock : Clock, truthful_history : bool) -> PreD
{
    let mut ws = [SlotD { present : false, content : 0, mtime : 0, exec : false }; 3];
    unroll3!(i, { ws[i] = slot(raw); });
    if ntargets < 2
    {
        /*  "b" is not part of a one-target harness */
        ws[1].present = false;
    }
    let mut cache = [SlotD { present : false, content : 0, mtime : 0, exec : false }; 5];
    unroll5!(k, {
        let mut s = slot(raw);
        s.content = k as u8;    // I1
        cache[k] = s;
    });
    if clock == Clock::Distinct
    {
        /*  W (the properties' own assumption): two distinct writes never share
            an mtime, so two files anywhere with equal mtimes are copies of one
            write: equal content.  (Cache slots hold pairwise different
            contents, hence pairwise different mtimes.) */
        unroll3!(i, {
            unroll3!(j, {
                if i < j && ws[i].present && ws[j].present && ws[i].mtime == ws[j].mtime { vassume(ws[i].content == ws[j].content); }
            });
            unroll5!(k, {
                if ws[i].present && cache[k].present && ws[i].mtime == cache[k].mtime { vassume(ws[i].content == cache[k].content); }
            });
        });
        unroll5!(k, {
            unroll5!(l, {
                if k < l && cache[k].present && cache[l].present { vassume(cache[k].mtime != cache[l].mtime); }
            });
        });
    }
    let mut table = [TableD { known : false, content : 0, mtime : 0, exec : false }; 2];
    let mut t = 0;
    while t < ntargets
    {
        let known = raw.flag();
        let content = raw.below(EMPTY + 1);
        let mtime = raw.below(MT);
        let exec = raw.flag();
        table[t] = TableD { known, content, mtime, exec };
        if known
        {
            match clock
            {
                Clock::Distinct =>
                {
                    unroll3!(i, { if ws[i].present && ws[i].mtime == mtime { vassume(ws[i].content == content); } });
                    unroll5!(k, { if cache[k].present && cache[k].mtime == mtime { vassume(cache[k].content == content); } });
                },
                Clock::Coarse =>
                {
                    if ws[t].present && ws[t].mtime == mtime { vassume(ws[t].content == content); }
                },
            }
        }
        t += 1;
    }
    let fresh = raw.below(MT);
    unroll3!(i, { if ws[i].present { vassume(ws[i].mtime != fresh); } });
    unroll5!(k, { if cache[k].present { vassume(cache[k].mtime != fresh); } });
    let mut t = 0;
    while t < ntargets
    {
        if table[t].known { vassume(table[t].mtime != fresh); }
        t += 1;
    }
    let out = [raw.below(EMPTY + 1), raw.below(EMPTY + 1)];
    let exec_out = [raw.flag(), raw.flag()];
    let has_history = raw.flag();
    let mut remembered = [0u8; 2];
    let mut t = 0;
    while t < 2
    {
        let content = raw.below(EMPTY + 1);
        remembered[t] = content;
        if truthful_history && t < ntargets
        {
            vassume(content == out[t]);     // I2
        }
        t += 1;
    }
    /*  The command's second write.  Drawn last so that the raw layout of
        everything above is unchanged.  Distinct clock: a distinct write has a
        distinct mtime (W); coarse clock: one tick, same mtime. */
    let fresh2 = match clock
    {
        Clock::Distinct =>
        {
            let f2 = raw.below(MT);
            vassume(f2 != fresh);
            unroll3!(i, { if ws[i].present { vassume(ws[i].mtime != f2); } });
            unroll5!(k, { if cache[k].present { vassume(cache[k].mtime != f2); } });
            let mut t = 0;
            while t < ntargets
            {
                if table[t].known { vassume(table[t].mtime != f2); }
                t += 1;
            }
            f2
        },
        Clock::Coarse => fresh,
    };
    PreD { ntargets, ws, cache, table, fresh, fresh2, out, exec_out, has_history, remembered }
}
