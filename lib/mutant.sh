#!/bin/bash
# lib/mutant.sh <patch.diff> <check-or-harness args...>
#   applies the patch to /repo, runs the given command, reverts /repo
set -u
PATCH=$1; shift
git -C /repo apply "$PATCH" || { echo "patch does not apply"; exit 3; }
trap 'git -C /repo checkout -- . ' EXIT
"$@"
