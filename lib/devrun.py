#!/usr/bin/env python3
"""dev helper: ./lib/devrun.py h1 h2 ... -> run harnesses through the driver and print verdicts"""
import sys, os, json
sys.path.insert(0, "/verif/lib")
import gen, kani_run, registry
gen.generate("/verif/kani")
names = sys.argv[1:]
res, dg = kani_run.run_harnesses(names, os.environ.get("VERIF_TIER", "quick"), registry.HARNESSES)
for n in names:
    r = res[n]
    print("%-30s %-12s %s | checks=%s vars=%s symex=%ss solver=%.1fs wall=%ss cached=%s" % (n, r["verdict"], r["why"], r.get("checks"), r.get("variables"), r.get("symex_s"), r.get("solver_s") or 0, r.get("wall_s"), r.get("cached")))
    for f in r.get("failed", [])[:12]:
        print("     FAILED:", f["description"], "@", f["location"][-80:])
