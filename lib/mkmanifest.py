#!/usr/bin/env python3
"""Regenerate /verif/MANIFEST.json from lib/registry.py (claimed properties,
their harness sets) and the not-applicable reasons below."""
import json
import sys

sys.path.insert(0, "/verif/lib")
import registry

TRUST = ("Trusted base: Kani 0.68/CBMC 6.11/CaDiCaL; the library models in kani/src/vstd.rs (std collections, thread, mpsc); "
         "the ideal-hash stand-in for SHA-256 (properties are stated modulo collisions); the stubs listed in the evidence file; "
         "the invariant I1-I4 and the composition argument of DESIGN.md section 2 (induction over builds / over the plan's "
         "topological order is prose, the per-step obligations are solver-checked on the real functions).")

LEVEL = {
    "C01": ("Bounded model checking of the per-rule step: from every pre-state within the bounds that satisfies I1-I3, the real resolve / rebuild / re-hash code leaves each target holding what the command produces from the current sources, returns the true hashes, and records them; the MIR of the real build() is interpreted (engine M/protocol) to show each rule is handed H*(hashes of the right targets of its producers, plan order), its own command, history and targets.", "3/C01, A.4"),
    "C02": ("Bounded model checking: at most one execution per rule step, none when the rule was already built from identical sources and every target is in place or in the cache; nothing is touched when everything is up to date; each rule is handled once per build and its history written back once.", "3/C02"),
    "C03": ("Solver-decided symbolic interpretation of the MIR of the real build() (ChannelPack::new, both spawn loops and worker closures, wait_for_sources_ticket, Packet, join loop) over a thread scheduler with Kahn-network monitors: on every enumerated plan and every placement of failures, a rule's work starts only after its thread has received a packet from every producer of its sources (ordered after them on every schedule) and every producer finished successfully; it is handed the hash of the right target of each producer.", 'A.4, 3.1'),
    "C04": ("Bounded model checking: for every placement of failing rules / missing leaves the real build() runs exactly the rules none of whose producers failed, reports one error per failure, records nothing for failed rules; the real command-outcome mapping and target re-hash report the right error kind naming the first missing target.", "3/C04"),
    "C05": ('Solver-decided symbolic interpretation of the MIR of the real build() and clean(): on every enumerated plan, failure placement and worker outcome, some thread can always move until all have ended (no deadlock), no panic is reached, every edge carries exactly one packet, no receiver is dropped before its packet arrived (so no send/receive error on any schedule), and the result is Ok or the list of work errors.', 'A.4, 3.1'),
    "C06": ("Bounded model checking with rely/guarantee interference: before every System call of one rule thread that looks at or changes a cache entry, the solver may let a peer back up or restore a byte-identical entry (2 steps per phase); the thread never fails because of it, accepts/recovers only the remembered content, and loses nothing.", "3.2, 3/C06"),
    "C07": ("Bounded model checking: for every pre-state within the bounds that satisfies I1/I3, every mutation issued by the real resolve/back-up/restore/clean code leaves each cache entry holding the content it is named after (asserted after each mutation, so also at every crash prefix).", "3/C07"),
    "C08": ("Bounded model checking: every rename issued by the real code has an absent or byte-identical destination, ruler never creates/chmods files itself, and every content present before a step is at a target or in the cache after each mutation, also when the command then runs or fails.", "3/C08"),
    "C09": ("Bounded model checking: every mutating System call of the real step functions names an in-scope target or a cache entry, out-of-scope files are bit-identical afterwards, leaves are only read; build() starts exactly one worker per plan entry and hands it exactly its own targets.", "3/C09"),
    "C10": ("Bounded model checking of clean_targets followed by the next build's resolve phase on one symbolic file system: targets gone and filed under their hash after clean; recovered byte-identical with their executable bit, no command, given pairwise different contents.", "3/C10"),
    "C11": ("Bounded model checking with a symbolic kill point: the real state-file writers (rule history, file-state table) killed before/after any file-system mutation or inside a write, then the real readers: never an error; directory::init from every partial ruler directory; cache content-addressed and nothing lost after every mutation of a rule step.", "A.3/C11"),
    "C12": ("Solver-checked path-forking interpretation of the sorter's MIR (rules_to_frame_buffer, sort_once, get_result, topological_sort, topological_sort_all) with SYMBOLIC names: for every enumerated shape (number of rules, targets and sources per rule) every pattern of equalities and order among target, source and goal names is decided by z3 forks, and on each the result is compared with an independent oracle (duplicate target, goal lookup, reachability, cycles by transitive closure, plan membership, producer-before-consumer, exact source binding, canonical order, independence of input order).", "A.3/C12"),
    "C13": ("Bounded model checking: for two symbolic parser-producible rules, the byte streams hashed into their identities are equal exactly when sorted targets, sorted sources and the command sequence are equal.", "3/C13"),
    "C14": ("Solver-decided symbolic interpretation of the MIR of rule::parse and of bundle.rs (parse_lines, parse_recusrive_helper, add_to_nodes, NumberedIndentedLine::new, get_empty_line_indices, get_path_strings) on SYMBOLIC lines (leading tabs and rest as z3 integers): for every file of up to 9 (12) lines and every section of up to 4 (5) lines, the answer equals an independent reference reading of the format: sections, command lines and rule order; error kind and 1-based line; bundles: each entry once, repeats merged, contradictions, wrong indent, empty lines, canonical order; no panic.", "A.5"),
    "C15": ("(a) solver-checked over ALL 256-bit values / all strings on the MIR of encode62/decode62 (path-wise symbolic execution, z3): 43 alphabet characters, value preserved, length/alphabet/overflow rejection, hence a bijection; (b) bounded model checking of from_file with symbolic short reads: the digest receives exactly the file's bytes.", "3/C15"),
    "C17": ("Bounded model checking of the real RuleHistory::insert + FileStateVec::compare (differing indices exactly, in order; record unchanged) and of the real rebuild_node around it (indices mapped to the right target paths; Ok iff nothing differs).", "3/C17"),
    "C18": ("Bounded model checking under the distinct-writes clock: every hash the real code takes through the mtime shortcut (re-hash tail, post-command refresh, resolve) equals the hash of the file's content, and every table entry handed back is truthful for every file carrying its mtime.", "3/C18"),
    "C20": ("Bounded model checking: the real build() prints exactly one banner per target of each finished rule, 'Built' iff the command ran, otherwise that target's own resolution, none for failed or cancelled rules; the resolutions themselves are truthful (Recovered iff restored from the cache, Up-to-date iff untouched).", "3/C20"),
}

NA = {
    "C16": "not applicable within reach: bincode/serde visitor machinery under CBMC runs out of memory (14 GB) on a one-entry RuleHistory round trip (DESIGN A.3)",
    "C19": "not applicable: the endpoints are closures inside a tokio/warp async runtime served over a socket; neither Kani (no async runtime, no sockets) nor a MIR translation of warp/hyper is within reach (DESIGN 3/C19)",
}


def main():
    checks = []
    served = {"kani-step": [], "mir-smt": []}
    for pid in sorted(registry.CLAIMED):
        e = registry.PROPERTIES[pid]
        text, ref = LEVEL[pid]
        eng = "kani-step" + ("+mir-smt" if e.get("mir") else "")
        if e["quick"]:
            served["kani-step"].append(pid)
        if e.get("mir"):
            served["mir-smt"].append(pid)
        tech = "bounded model checking (Kani/CBMC SAT) of the real Rust functions over a symbolic pre-state"
        mir0 = e.get("mir")[0] if isinstance(e.get("mir"), list) else e.get("mir")
        if mir0 == "sorter":
            eng = "mir-smt"
            tech = "SMT (z3) decided path-forking symbolic interpretation of rustc's MIR for sort.rs with symbolic rule names, shapes enumerated"
        elif mir0 == "parser":
            eng = "mir-smt"
            tech = "SMT (z3) decided path-forking symbolic interpretation of rustc's MIR for rule.rs / bundle.rs on symbolic lines (leading tabs, rest), file and section lengths enumerated; classes re-run as concrete text on the real parser"
        elif mir0 == "proto":
            if not e["quick"]:
                eng = "mir-smt"
                tech = "SMT (z3) decided symbolic interpretation of rustc's MIR for build.rs / packet.rs (build(), clean(), worker closures, channel wiring) over a deterministic thread scheduler with Kahn-network monitors; plans enumerated, worker outcomes symbolic; counterexamples re-run on the real build() under a seeded native scheduler"
            else:
                tech += "; plus SMT (z3) decided symbolic interpretation of rustc's MIR for build(), clean() and the worker closures over a deterministic thread scheduler with Kahn-network monitors (plans enumerated, worker outcomes symbolic)"
        elif e.get("mir"):
            tech = "SMT (z3) over a path-wise symbolic execution of rustc's MIR for the base-62 kernels, plus bounded model checking (Kani/CBMC) of from_file"
        if isinstance(e.get("mir"), list) and "sorter" in e.get("mir")[1:]:
            tech += "; plus the sorter executor's clauses this property rests on (goal scope for C09, producer-before-consumer and source binding for C03)"
        checks.append({
            "property_id": pid,
            "quick_cmd": "./check %s quick" % pid,
            "thorough_cmd": "./check %s thorough" % pid,
            "evidence_file": "/verif/evidence/%s.json" % pid,
            "replay_cmd_template": "VERIF_REPLAY={path} cargo test --offline --manifest-path /verif/replay/Cargo.toml replay_from_env -- --nocapture",
            "engine": eng,
            "level_claimed": {"category": "model_checking", "text": text, "design_ref": ref},
            "level_note": "Bounded; per-step / per-function obligations only. " + TRUST,
            "technique": tech,
        })
    na = []
    for l in open("/verif/properties.jsonl"):
        pid = json.loads(l)["id"]
        if pid not in registry.CLAIMED:
            na.append({"property_id": pid, "reason": NA.get(pid, "check not yet built in this revision (see DESIGN.md)")})
    m = {
        "version": 1,
        "setup_cmd": "./setup.sh",
        "hooks": {
            "guard": "none: no source hooks in /repo (the harness crates compile a regenerated copy of /repo/src, see lib/gen.py; cargo kani sets cfg(kani))",
            "enable": "python3 /verif/lib/gen.py regenerates /verif/kani/gen and /verif/replay/gen from /repo/src on every check run",
            "baseline_off_cmd": "cd /repo && cargo test --workspace --no-fail-fast --offline",
            "source_commits": [],
            "add_only": True,
        },
        "engines": [
            {"name": "kani-step", "path": "/verif/kani", "serves_properties": served["kani-step"],
             "kind_free_text": "Kani proof harnesses appended to a regenerated copy of ruler's modules; symbolic SymSystem pre-state, sequentialising thread/channel shim; CBMC/CaDiCaL decides"},
            {"name": "mir-smt", "path": "/verif/lib/mir_engine.py", "serves_properties": served["mir-smt"],
             "kind_free_text": "symbolic execution of rustc's -Zunpretty=mir output, z3 decides: (1) lib/mirsym.py + mir_engine.py, path-wise, for the base-62 / timestamp integer kernels; (2) lib/mirint.py, a path-forking interpreter with an object memory model, driven by sort_engine.py (the sorter, symbolic names) and proto_engine.py (build()/clean() over a thread scheduler with Kahn monitors)"},
        ],
        "checks": checks,
        "not_applicable": na,
        "notes": "exit 0 = held on everything explored; exit 1 + VIOLATION line = reproduced natively; exit 2 = inconclusive (never a pass). Properties are added as their harness sets become decidable within the resource caps.",
    }
    json.dump(m, open("/verif/MANIFEST.json", "w"), indent=1)
    print("MANIFEST: %d checks, %d not applicable" % (len(checks), len(na)))


if __name__ == "__main__":
    main()
