#!/usr/bin/env python3
"""run_seeds.py [tier] [seed ids...] : apply each seeded change to /repo, run the given
property checks against it, revert.  Results go to work/seed_results/<id>.txt and a summary is
printed.  /repo must be clean and nothing else may be using it meanwhile."""
import json
import os
import subprocess
import sys

sys.path.insert(0, "/verif/lib")
import registry

# which claimed checks are expected to look at the code a seed touches (its own property first)
ALSO = {
    "C01": ["C01", "C20"], "C02": ["C02"], "C03": ["C03", "C12"], "C04": ["C04"], "C05": ["C05"], "C06": ["C06"], "C07": ["C07", "C18"], "C08": ["C08"],
    "C09": ["C09", "C12"], "C10": ["C10"], "C11": ["C11"], "C12": ["C12"], "C13": ["C13"], "C14": ["C14"], "C15": ["C15"], "C16": ["C11"],
    "C17": ["C17", "C01"], "C18": ["C18"], "C20": ["C20"],
    # second round (all in src/build.rs): the seeded property's own check, then C05 (the same executor reports races there)
    "C02c": ["C02", "C01"], "C06c": ["C06"], "C08c": ["C08"], "C11c": ["C11"], "C12c": ["C12"], "C13c": ["C13"], "C15c": ["C15"], "C18c": ["C18"],
    "C03b": ["C03"], "C04b": ["C04", "C05"], "C05b": ["C05"], "C09b": ["C09"], "C20b": ["C20"],
}


def sh(cmd):
    return subprocess.run(cmd, shell=True, capture_output=True, text=True)


def main():
    tier = sys.argv[1] if len(sys.argv) > 1 else "quick"
    ids = sys.argv[2:] or sorted(os.listdir("/verif/seeded"))
    os.makedirs("/verif/work/seed_results", exist_ok=True)
    if sh("git -C /repo status --porcelain").stdout.strip():
        raise SystemExit("/repo is not clean")
    summary = {}
    for sid in ids:
        patch = "/verif/seeded/%s/patch.diff" % sid
        if os.path.exists("/verif/seeded/%s/patch_rebased.diff" % sid):
            patch = "/verif/seeded/%s/patch_rebased.diff" % sid
        prop = sid[:3]
        checks = [c for c in ALSO.get(sid, ALSO.get(prop, [prop])) if c in registry.CLAIMED]
        if not checks:
            summary[sid] = "no claimed check looks at this code (property not claimed)"
            continue
        if sh("git -C /repo apply %s" % patch).returncode != 0:
            summary[sid] = "patch does not apply to the current tree"
            continue
        out_all = ""
        verdicts = []
        try:
            for c in checks:
                p = sh("cd /verif && ./check %s %s" % (c, tier))
                out_all += "=== ./check %s %s -> exit %d\n%s\n" % (c, tier, p.returncode, p.stdout[-3000:])
                v = [l for l in p.stdout.split("\n") if l.startswith("VIOLATION") or l.startswith("KNOWN-FINDING")]
                verdicts.append("%s:exit%d%s" % (c, p.returncode, (" " + v[0]) if v else ""))
                if p.returncode == 1:
                    break
        finally:
            sh("git -C /repo checkout -- .")
        open("/verif/work/seed_results/%s.txt" % sid, "w").write(out_all)
        summary[sid] = "; ".join(verdicts)
        print(sid, summary[sid], flush=True)
    sp = "/verif/work/seed_results/summary_%s.json" % tier
    old = json.load(open(sp)) if os.path.exists(sp) else {}
    old.update(summary)
    json.dump(old, open(sp, "w"), indent=1)
    for k, v in summary.items():
        print("%-6s %s" % (k, v))


if __name__ == "__main__":
    main()
