#!/usr/bin/env python3
"""Regenerate the harness crates' view of ruler's sources from /repo's CURRENT
working tree.  Called at the start of every check run.

For each module file of /repo/src that the harness crates compile, the text is
copied verbatim except for these *library-model redirections* (each is a pure
path-prefix substitution inside ruler's own text; DESIGN.md section 1.1):

    std::collections::      -> crate::vstd::collections::
    use std::thread;        -> use crate::vstd::thread;
    use std::sync::mpsc::   -> use crate::vstd::mpsc::
    <recv>.sort()           -> <recv>.vsort()   (trait crate::vstd::VSort, imported by a one-line prelude)

and the harness text from <crate>/harness/<module>.rs is appended, so that the
harnesses live in the same module as the real code and can reach private
items.  Nothing of ruler's logic is rewritten.  Under cfg(not(kani)),
crate::vstd re-exports the real std items, so the native build of the generated
sources is ruler itself.

The generator also returns, per module, the sha256 of the source text it read
and the number of redirections applied, which the evidence files report.
"""
import hashlib
import json
import os
import re
import sys

REPO = os.environ.get("VERIF_REPO", "/repo")
SRC = os.path.join(REPO, "src")

MODULES = [
    "blob", "bundle", "build", "cache", "directory", "current", "history",
    "packet", "printer", "rule", "sort", "ticket", "work",
    "system/mod", "system/util", "system/real", "system/fake",
]

SUBS = [
    (re.compile(r"\bstd::collections::"), "crate::vstd::collections::"),
    (re.compile(r"\buse std::thread;"), "use crate::vstd::thread;"),
    (re.compile(r"\buse std::sync::mpsc::"), "use crate::vstd::mpsc::"),
    # `<[T]>::sort` on a Vec/slice receiver -> crate::vstd::VSort::vsort (std's sort natively, an
    # exact small-slice sorting network under Kani); the trait is brought into scope by PRELUDE
    (re.compile(r"\.sort\(\)"), ".vsort()"),
]

PRELUDE = "#[allow(unused_imports)] use crate::vstd::VSort as _;\n"



def generate(crate_dir, extra_cfg_test=None):
    """crate_dir: /verif/kani or /verif/replay.  Returns metadata dict."""
    gen = os.path.join(crate_dir, "gen")
    harness = os.path.join(crate_dir, "harness")
    os.makedirs(os.path.join(gen, "system"), exist_ok=True)
    meta = {}
    for m in MODULES:
        src = os.path.join(SRC, m + ".rs")
        if not os.path.exists(src):
            raise SystemExit("gen: missing source file %s" % src)
        with open(src, "r", encoding="utf-8") as f:
            text = f.read()
        sha = hashlib.sha256(text.encode()).hexdigest()
        nsub = 0
        for rx, rep in SUBS:
            text, n = rx.subn(rep, text)
            nsub += n
        # keep ruler's line numbers: the prelude goes on the (first) line, not before it
        if m != "system/mod":
            text = PRELUDE.rstrip("\n") + " " + text if not text.startswith("#!") else text
        hbase = m.replace("/", "_")
        hfiles = [hbase + ".rs"]
        if os.path.isdir(harness):
            hfiles += sorted(f for f in os.listdir(harness) if f.startswith(hbase + "__") and f.endswith(".rs"))
        for hname in hfiles:
            hpath = os.path.join(harness, hname)
            if os.path.exists(hpath):
                with open(hpath, "r", encoding="utf-8") as f:
                    text += "\n\n// ---- appended by /verif/lib/gen.py from %s ----\n" % hpath
                    text += f.read()
        out = os.path.join(gen, m + ".rs")
        old = None
        if os.path.exists(out):
            with open(out, "r", encoding="utf-8") as f:
                old = f.read()
        if old != text:
            with open(out, "w", encoding="utf-8") as f:
                f.write(text)
        meta[m] = {"sha256": sha, "redirections": nsub, "lines": text.count("\n")}
    return meta


def function_span(module, name):
    """(first_line, last_line, sha256) of fn `name` in /repo/src/<module>.rs by
    brace matching; used only for reporting in evidence."""
    path = os.path.join(SRC, module + ".rs")
    with open(path, encoding="utf-8") as f:
        lines = f.read().split("\n")
    rx = re.compile(r"\bfn\s+" + re.escape(name) + r"\b")
    for i, l in enumerate(lines):
        if rx.search(l):
            depth = 0
            started = False
            for j in range(i, len(lines)):
                for ch in lines[j]:
                    if ch == "{":
                        depth += 1
                        started = True
                    elif ch == "}":
                        depth -= 1
                if started and depth == 0:
                    body = "\n".join(lines[i:j + 1])
                    return (i + 1, j + 1, hashlib.sha256(body.encode()).hexdigest()[:16])
            break
    return None


if __name__ == "__main__":
    d = sys.argv[1] if len(sys.argv) > 1 else "/verif/kani"
    print(json.dumps(generate(d), indent=1))
