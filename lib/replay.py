"""Native replay of solver counterexamples (DESIGN section 1.3 / 4).

replay(pid, harness, failed_checks, tier, spec) ->
    {"status": "reproduced" | "not_reproduced" | "unavailable", "path": <replay script>, "role": <key>, "detail": str}

Step harnesses: Kani is re-run on the failing harness with concrete playback to
obtain the raw pre-state bytes; the native replay crate (/verif/replay: the
same generated sources, real rust-crypto, real base-62, real format!, ruler's
own FakeSystem) rebuilds that pre-state and runs the REAL function, evaluating
the same property natively.
"""
import json
import os
import re
import subprocess
import time

import kani_run

VERIF = "/verif"
REPLAYS = os.path.join(VERIF, "replays")


def extract_playback_bytes(text, want_descs):
    """Parse Kani's printed concrete playback tests; return list of byte lists
    for the first test whose 'Check for `assertion`' matches one of want_descs."""
    tests = re.split(r"Concrete playback unit test for", text)[1:]
    best = None
    for t in tests:
        m = re.search(r"Check for `(\w+)`: \"\"?(.*?)\"?\"\n", t)
        vals = [[int(x) for x in v.split(",") if x.strip()] for v in re.findall(r"vec!\[([\d,\s]*)\],?\n", t)]
        # first vec![ is the outer opener with no numbers on its line: filtered by regex (needs closing on same line)
        flat = [b for v in vals for b in v]
        if m and m.group(1) == "assertion" and any(d in m.group(2) for d in want_descs):
            return flat
        if best is None and m and m.group(1) == "assertion":
            best = flat
    return best


def replay(pid, harness, failed, tier, spec):
    os.makedirs(REPLAYS, exist_ok=True)
    kind = spec.get("kind")
    path = os.path.join(REPLAYS, "%s_%s.json" % (pid, harness))
    if kind not in ("step", "sort", "identity", "unit", "glue", "codec", "proto", "torn", "coarse"):
        json.dump({"property": pid, "harness": harness, "failed": failed, "note": "no native replay driver for this harness kind"},
                  open(path, "w"), indent=1)
        return {"status": "unavailable", "path": path, "role": None, "detail": "no native replay driver for harness kind %s" % kind}
    # 1. concrete values
    r = kani_run.run_one(harness, 0, int(os.environ.get("VERIF_PLAYBACK_TIMEOUT", "2400")), int(os.environ.get("VERIF_PLAYBACK_MEM_KB", "40000000")),
                         extra_args=spec.get("extra_args"), features=spec.get("features"), playback=True,
                         module=spec.get("module"), submod=spec.get("submod", "verif"), memcmp=spec.get("memcmp"),
                         cbmc_extra=["--property", failed[0]["check"]])
    text = open(r["log"], errors="replace").read()
    raw = extract_playback_bytes(text, [f["description"] for f in failed])
    if not raw:
        json.dump({"property": pid, "harness": harness, "failed": failed, "note": "no concrete playback values"}, open(path, "w"), indent=1)
        return {"status": "not_reproduced", "path": path, "role": None, "detail": "Kani produced no concrete playback values"}
    script = {"property": pid, "harness": harness, "raw": raw, "assertions": [f["description"] for f in failed]}
    json.dump(script, open(path, "w"), indent=1)
    with open(path + ".txt", "w") as f:
        f.write("harness=%s\nraw=%s\n" % (harness, ",".join(str(b) for b in raw)))
    # 2. native run (regenerate the replay crate's view of /repo first)
    import gen
    gen.generate(os.path.join(VERIF, "replay"))
    if not os.path.exists(os.path.join(VERIF, "replay", "Cargo.lock")):
        import shutil
        shutil.copy("/repo/Cargo.lock", os.path.join(VERIF, "replay", "Cargo.lock"))
    env = dict(os.environ)
    env["CARGO_NET_OFFLINE"] = "true"
    env["VERIF_REPLAY"] = path
    p = subprocess.run(["cargo", "test", "--offline", "--quiet", "--manifest-path", os.path.join(VERIF, "replay", "Cargo.toml"),
                        "replay_from_env", "--", "--nocapture", "--test-threads", "1"],
                       cwd=os.path.join(VERIF, "replay"), env=env, capture_output=True, text=True, timeout=1800)
    out = p.stdout + p.stderr
    m = re.search(r"REPLAY-RESULT (\{.*\})", out)
    if not m:
        script["native_output"] = out[-4000:]
        json.dump(script, open(path, "w"), indent=1)
        return {"status": "not_reproduced", "path": path, "role": None, "detail": "native replay driver gave no result"}
    res = json.loads(m.group(1))
    script["native"] = res
    json.dump(script, open(path, "w"), indent=1)
    hit = [v for v in res.get("violated", []) if pid in v.get("properties", [])]
    if hit:
        return {"status": "reproduced", "path": path, "role": hit[0].get("role"), "detail": hit[0].get("what", "")}
    return {"status": "not_reproduced", "path": path, "role": None,
            "detail": "native run of the real function from the solver's pre-state does not violate %s (assumption_ok=%s)" % (pid, res.get("assumption_ok"))}
