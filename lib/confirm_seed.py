#!/usr/bin/env python3
"""confirm_seed.py <id> <seed_out dir> <file to paste the demo into, relative to the crate root>

Independent confirmation of a seeded change produced by a sub-agent, in a
scratch worktree of /repo (reused between calls, under /tmp/cf_seed):
  1. clean checkout + patch.diff           -> the 209 existing tests pass
  2. + demo pasted before the last `}` of the named file -> some test fails
  3. patch reverted, demo kept             -> every test passes
On success the deliverables are copied to /verif/seeded/<id>/ and meta.json is
extended with what was run here.
"""
import json
import os
import re
import shutil
import subprocess
import sys

WT = "/tmp/cf_seed"


def sh(cmd, cwd=WT, check=True):
    p = subprocess.run(cmd, shell=True, cwd=cwd, capture_output=True, text=True)
    if check and p.returncode != 0:
        print(p.stdout[-3000:], p.stderr[-3000:])
        raise SystemExit("command failed: %s" % cmd)
    return p


def run_tests():
    p = sh("CARGO_NET_OFFLINE=true cargo test --offline 2>&1", check=False)
    out = p.stdout
    m = re.findall(r"test result: (\w+)\. (\d+) passed; (\d+) failed", out)
    compiled = bool(m)
    passed = sum(int(x[1]) for x in m)
    failed = sum(int(x[2]) for x in m)
    failing = re.findall(r"^test (\S+) \.\.\. FAILED", out, re.M)
    return compiled, passed, failed, failing, out


def main():
    sid, src, paste = sys.argv[1], sys.argv[2], sys.argv[3]
    if not os.path.isdir(WT):
        sh("git -C /repo worktree add -q --detach %s HEAD" % WT, cwd="/")
    sh("git checkout -q --detach $(git -C /repo rev-parse HEAD) && git checkout -- . && git clean -fdq -e target")
    patch = os.path.join(src, "patch.diff")
    demo = [f for f in os.listdir(src) if f.startswith("demo")]
    assert demo, "no demo file"
    demo = os.path.join(src, demo[0])
    sh("git apply %s" % patch)
    c, p1, f1, _, out = run_tests()
    print("1. with change: compiled=%s passed=%d failed=%d" % (c, p1, f1))
    if not (c and p1 == 209 and f1 == 0):
        print(out[-2000:])
        raise SystemExit("REJECT: test suite does not pass with the change")
    target = os.path.join(WT, paste)
    text = open(target).read()
    i = text.rstrip().rfind("}")
    text2 = text[:i] + "\n" + open(demo).read() + "\n" + text[i:]
    open(target, "w").write(text2)
    c, p2, f2, failing2, out = run_tests()
    print("2. with change + demo: compiled=%s passed=%d failed=%d failing=%s" % (c, p2, f2, failing2))
    if not (c and f2 >= 1):
        print(out[-3000:])
        raise SystemExit("REJECT: demo does not fail with the change")
    sh("git apply -R %s" % patch)
    c, p3, f3, failing3, out = run_tests()
    print("3. demo without change: compiled=%s passed=%d failed=%d" % (c, p3, f3))
    if not (c and f3 == 0 and p3 > 209):
        print(out[-3000:])
        raise SystemExit("REJECT: demo does not pass without the change")
    dst = "/verif/seeded/%s" % sid
    os.makedirs(dst, exist_ok=True)
    shutil.copy(patch, os.path.join(dst, "patch.diff"))
    shutil.copy(demo, os.path.join(dst, os.path.basename(demo)))
    meta = {}
    mp = os.path.join(src, "meta.json")
    if os.path.exists(mp):
        try:
            meta = json.load(open(mp))
        except Exception:
            meta = {"raw_meta": open(mp).read()}
    meta["confirmed_by_verif"] = {
        "worktree": WT + " (scratch, removed afterwards)",
        "paste_demo_into": paste,
        "with_change": "%d passed, %d failed" % (p1, f1),
        "with_change_and_demo": "%d passed, %d failed: %s" % (p2, f2, failing2),
        "demo_without_change": "%d passed, %d failed" % (p3, f3),
        "ran": ["git apply patch.diff; cargo test --offline", "paste demo before last } of %s; cargo test --offline" % paste,
                "git apply -R patch.diff; cargo test --offline"],
    }
    json.dump(meta, open(os.path.join(dst, "meta.json"), "w"), indent=1)
    sh("git checkout -- . && git clean -fdq -e target")
    print("CONFIRMED %s -> %s" % (sid, dst))


if __name__ == "__main__":
    main()
