"""Engine M for the dependency sorter (C12): the MIR of topological_sort /
topological_sort_all and everything they call inside sort.rs is interpreted
path by path (lib/mirint.py); the names of targets, sources and the goal are
SYMBOLIC integers -- every equality / order comparison the code makes, and every
comparison the oracle makes, is a solver-checked fork -- so one run covers every
labelling of the given shape.  Shapes (number of rules, targets and sources per
rule) are enumerated; they are concrete because they decide vector lengths.

Oracle (independent of the code, on the same symbolic names): duplicate target,
goal lookup, edges, reachability and cycles by transitive closure; on success
the plan must contain exactly the rules in scope, each once, every rule after
all producers of its sources, every source bound to the right (node, target
index) or leaf, targets/sources/leaves in canonical order; and the plan must be
identical when the rules are handed over in reversed order.
"""
import copy
import itertools
import json
import os
import re
import sys
import time

import z3

sys.path.insert(0, "/verif/lib")
import gen
import mirint
from mirint import (Interp, State, FrameS, Sym, Str, Agg, Enum, VecV, MapV, SetV, BSetV, Ref, BoxCell, IterV, UNIT, none, some,
                    Unsupported, Budget, Panic, Fork)

VERIF = "/verif"
WORK = os.path.join(VERIF, "work")


# --------------------------------------------------------------------------
# helpers on names
# --------------------------------------------------------------------------

def zc(code):
    return code.e if isinstance(code, Sym) else z3.IntVal(code)


def name_eq(I, st, a, b):
    if a.code is b.code:
        return True
    if isinstance(a.code, int) and isinstance(b.code, int):
        return a.code == b.code
    if isinstance(a.code, tuple) or isinstance(b.code, tuple):
        return a.code == b.code
    return I.decide(st, zc(a.code) == zc(b.code))


def name_lt(I, st, a, b):
    if a.code is b.code:
        return False
    if isinstance(a.code, int) and isinstance(b.code, int):
        return a.code < b.code
    return I.decide(st, zc(a.code) < zc(b.code))


def cmp_val(I, st, a, b):
    """-1 / 0 / 1 following the derived Ord of String, Vec<String>, Rule"""
    if isinstance(a, Str):
        if name_eq(I, st, a, b):
            return 0
        return -1 if name_lt(I, st, a, b) else 1
    if isinstance(a, VecV):
        for x, y in zip(a.items, b.items):
            c = cmp_val(I, st, x, y)
            if c != 0:
                return c
        return (len(a.items) > len(b.items)) - (len(a.items) < len(b.items))
    if isinstance(a, Agg):
        for x, y in zip(a.f, b.f):
            c = cmp_val(I, st, x, y)
            if c != 0:
                return c
        return 0
    if isinstance(a, int):
        return (a > b) - (a < b)
    raise Unsupported("ordering of %r" % type(a).__name__)


def deref(v):
    return v.get() if isinstance(v, Ref) else v


# --------------------------------------------------------------------------
# callee models (closed list; regex on the callee as printed in the MIR)
# --------------------------------------------------------------------------

def build_models():
    M = []
    used = set()

    def add(rx, fn, doc):
        def wrapped(I, st, a, fn=fn, doc=doc):
            used.add(doc)
            return fn(I, st, a)
        M.append((re.compile(rx), wrapped, doc))

    add(r"Vec::<.*>::new", lambda I, st, a: VecV([]), "Vec::new")
    add(r"Vec::<.*>::push", lambda I, st, a: (deref(a[0]).items.append(a[1]), UNIT)[1], "Vec::push")
    add(r"Vec::<.*>::len", lambda I, st, a: len(deref(a[0]).items), "Vec::len")

    def vec_pop(I, st, a):
        v = deref(a[0])
        return some(v.items.pop()) if v.items else none()
    add(r"Vec::<.*>::pop", vec_pop, "Vec::pop")

    def vec_remove(I, st, a):
        v, i = deref(a[0]), a[1]
        if not isinstance(i, int):
            raise Unsupported("symbolic index in Vec::remove")
        if i >= len(v.items):
            raise Panic("removal index (is %d) should be < len (is %d)" % (i, len(v.items)))
        return v.items.pop(i)
    add(r"Vec::<.*>::remove", vec_remove, "Vec::remove(i) (bounds-checked)")

    def vec_index(I, st, a):
        v = deref(a[0])
        i = a[1]
        if not isinstance(i, int):
            raise Unsupported("symbolic vector index")
        if i >= len(v.items):
            raise Panic("index out of bounds: the len is %d but the index is %d" % (len(v.items), i))
        return Ref(v.items, i)
    add(r"<Vec<.*> as (std::ops::)?IndexMut<usize>>::index_mut", vec_index, "Vec[i] (bounds-checked)")
    add(r"<Vec<.*> as (std::ops::)?Index<usize>>::index", vec_index, "Vec[i] (bounds-checked)")
    add(r"<Vec<.*> as (std::ops::)?Deref>::deref", lambda I, st, a: a[0], "Vec as slice")
    add(r"core::slice::<impl \[.*\]>::iter", lambda I, st, a: IterV("slice", deref(a[0])), "slice::iter")
    add(r"<.* as IntoIterator>::into_iter", lambda I, st, a: IterV("list", list(a[0].items)) if isinstance(a[0], BSetV) else a[0], "IntoIterator::into_iter")
    add(r"<std::slice::Iter<.*> as Iterator>::enumerate", lambda I, st, a: IterV("enum", None, inner=a[0]), "Iterator::enumerate")

    def it_next(I, st, a):
        it = deref(a[0])
        if isinstance(it, Agg) and it.ty == "Range":
            if it.f[0] < it.f[1]:
                v = it.f[0]
                it.f[0] += 1
                return some(v)
            return none()
        if not isinstance(it, IterV):
            raise Unsupported("next() on %r" % type(it).__name__)
        if it.kind == "slice":
            if it.pos < len(it.src.items):
                it.pos += 1
                return some(Ref(it.src.items, it.pos - 1))
            return none()
        if it.kind == "list":
            if it.pos < len(it.src):
                it.pos += 1
                return some(it.src[it.pos - 1])
            return none()
        if it.kind == "enum":
            inner = it.inner
            if inner.pos < len(inner.src.items):
                inner.pos += 1
                return some(Agg([inner.pos - 1, Ref(inner.src.items, inner.pos - 1)]))
            return none()
        raise Unsupported("iterator kind %s" % it.kind)
    add(r"<.* as Iterator>::next", it_next, "Iterator::next for slice::Iter / Drain / Range / Enumerate / btree_set::IntoIter")

    def drain_all(I, st, a):
        v = deref(a[0])
        items = list(v.items)
        del v.items[:]
        return IterV("list", items)
    add(r"Vec::<.*>::drain::<RangeFull>", drain_all, "Vec::drain(..) yields every element and leaves the vector empty")

    def opt_take(I, st, a):
        v = a[0].get()
        a[0].set(none())
        return v
    add(r"(std::option::)?Option::<.*>::take", opt_take, "Option::take")

    def opt_unwrap(I, st, a):
        if a[0].idx == 0:
            raise Panic("called `Option::unwrap()` on a `None` value")
        return a[0].f[0]
    add(r"(std::option::)?Option::<.*>::unwrap", opt_unwrap, "Option::unwrap panics on None")

    def keyof(v):
        v = deref(v)
        if isinstance(v, (int, bool)):
            return v
        if isinstance(v, Agg):
            return tuple(keyof(x) for x in v.f)
        raise Unsupported("HashSet element of type %s" % type(v).__name__)

    add(r"std::collections::HashSet::<.*>::new", lambda I, st, a: SetV(), "HashSet::new")

    def set_insert(I, st, a):
        s, x = deref(a[0]), keyof(a[1])
        if x in s.items:
            return False
        s.items.append(x)
        return True
    add(r"std::collections::HashSet::<.*>::insert", set_insert, "HashSet::insert (elements: integers / tuples of integers)")

    def set_remove(I, st, a):
        s, x = deref(a[0]), keyof(a[1])
        if x in s.items:
            s.items.remove(x)
            return True
        return False
    add(r"std::collections::HashSet::<.*>::remove::<.*>", set_remove, "HashSet::remove")
    add(r"std::collections::HashSet::<.*>::contains::<.*>", lambda I, st, a: keyof(a[1]) in deref(a[0]).items, "HashSet::contains")
    add(r"std::collections::HashSet::<.*>::len", lambda I, st, a: len(deref(a[0]).items), "HashSet::len")

    def vec_append(I, st, a):
        v, o = deref(a[0]), deref(a[1])
        v.items.extend(o.items)
        del o.items[:]
        return UNIT
    add(r"Vec::<.*>::append", vec_append, "Vec::append moves every element of the other vector to the end")
    add(r"Vec::<.*>::is_empty", lambda I, st, a: len(deref(a[0]).items) == 0, "Vec::is_empty")
    add(r"Vec::<.*>::clear", lambda I, st, a: (deref(a[0]).items.__delitem__(slice(None)), UNIT)[1], "Vec::clear")

    def vec_insert(I, st, a):
        v, i = deref(a[0]), a[1]
        if not isinstance(i, int) or i > len(v.items):
            raise Panic("insertion index out of bounds")
        v.items.insert(i, a[2])
        return UNIT
    add(r"Vec::<.*>::insert", vec_insert, "Vec::insert(i, x)")
    add(r"Vec::<.*>::with_capacity", lambda I, st, a: VecV([]), "Vec::with_capacity")
    add(r"(std::option::)?Option::<.*>::is_some", lambda I, st, a: deref(a[0]).idx == 1, "Option::is_some")
    add(r"(std::option::)?Option::<.*>::is_none", lambda I, st, a: deref(a[0]).idx == 0, "Option::is_none")

    add(r"std::collections::HashMap::<.*>::new", lambda I, st, a: MapV(), "HashMap::new")

    def map_get(I, st, a):
        m, k = deref(a[0]), deref(a[1])
        for ent in m.items:
            if name_eq(I, st, ent[0], k):
                return some(Ref(ent, 1))
        return none()
    add(r"std::collections::HashMap::<std::string::String, .*>::get::<(std::string::String|str)>", map_get, "HashMap<String,_>::get: the entry with an equal key")

    def map_insert(I, st, a):
        m, k, v = deref(a[0]), a[1], a[2]
        for ent in m.items:
            if name_eq(I, st, ent[0], k):
                old = ent[1]
                ent[1] = v
                return some(old)
        m.items.append([k, v])
        return none()
    add(r"std::collections::HashMap::<std::string::String, .*>::insert", map_insert, "HashMap<String,_>::insert replaces the value of an equal key")

    add(r"std::collections::BTreeSet::<std::string::String>::new", lambda I, st, a: BSetV(), "BTreeSet::new")

    def bset_insert(I, st, a):
        s, x = deref(a[0]), a[1]
        pos = len(s.items)
        for i, y in enumerate(s.items):
            if name_eq(I, st, y, x):
                return False
            if name_lt(I, st, x, y):
                pos = i
                break
        s.items.insert(pos, x)
        return True
    add(r"std::collections::BTreeSet::<std::string::String>::insert", bset_insert, "BTreeSet<String>::insert keeps ascending order, ignores an equal element")

    ident = lambda I, st, a: deref(a[0])
    add(r"<std::string::String as Clone>::clone", ident, "String::clone")
    add(r"<std::string::String as ToOwned>::to_owned", ident, "String::to_owned")
    add(r"<(std::string::String|str) as ToString>::to_string", ident, "to_string")

    def vsort(I, st, a):
        v = deref(a[0])
        out = []
        for x in v.items:            # insertion sort on a copy: every comparison is decided before anything is written back
            pos = len(out)
            for i, y in enumerate(out):
                if cmp_val(I, st, x, y) < 0:
                    pos = i
                    break
            out.insert(pos, x)
        v.items[:] = out
        return UNIT
    add(r"<Vec<.*> as VSort>::vsort", vsort, "<[T]>::sort by the derived Ord")
    add(r"Rule::get_ticket", lambda I, st, a: Agg(["ticket"], "Ticket"), "Rule::get_ticket (identity is irrelevant to ordering; C13's subject)")
    add(r"<.*Ticket as Clone>::clone", ident, "Ticket::clone")

    def try_branch(I, st, a):
        r = a[0]
        if r.idx == 0:
            return Enum("ControlFlow", 0, [r.f[0]])
        return Enum("ControlFlow", 1, [Enum("Result", 1, [r.f[0]])])
    add(r"<Result<.*> as Try>::branch", try_branch, "the ? operator (Try::branch)")
    add(r"<Result<.*> as FromResidual<.*>>::from_residual", lambda I, st, a: Enum("Result", 1, [a[0].f[0]]), "the ? operator (from_residual)")
    add(r"Box::<\[.*; 1\]>::new_uninit", lambda I, st, a: BoxCell(), "vec![x] expansion: Box::new_uninit")
    add(r"std::boxed::box_assume_init_into_vec_unsafe::<.*, 1>", lambda I, st, a: VecV(list(a[0].cell[0])), "vec![x] expansion: into_vec")
    return M, used


def crate_fn_index(mir):
    """callee text in sort.rs MIR -> name of the MIR function to interpret"""
    idx = []
    for short, callee in (("from_rule_and_index", r"Frame::from_rule_and_index"), ("visit", r"Frame::visit"),
                          ("sort_once", r"TopologicalSortMachine::sort_once"), ("get_result", r"TopologicalSortMachine::get_result")):
        m = re.search(r"^fn (sort::<impl at [^>]*>::%s)\(" % short, mir, re.M)
        if m:
            idx.append((re.compile(callee), m.group(1)))
    for m in re.finditer(r"^fn (sort::<impl at [^>]*>::new)\((.*)$", mir, re.M):
        if "FrameBufferValue" in m.group(2):
            idx.append((re.compile(r"TopologicalSortMachine::new"), m.group(1)))
        elif "Vec<Node>" in m.group(2):
            idx.append((re.compile(r"NodePack::new"), m.group(1)))
    idx.append((re.compile(r"rules_to_frame_buffer"), "rules_to_frame_buffer"))
    return idx


# --------------------------------------------------------------------------
# cases and oracle
# --------------------------------------------------------------------------

class Case:
    def __init__(self, shape, with_goal):
        self.shape = shape          # [(nt, ns)] per rule
        self.with_goal = with_goal
        self.t = [[Str(Sym(z3.Int("t%d_%d" % (i, j)))) for j in range(nt)] for i, (nt, ns) in enumerate(shape)]
        self.s = [[Str(Sym(z3.Int("s%d_%d" % (i, j)))) for j in range(ns)] for i, (nt, ns) in enumerate(shape)]
        self.goal = Str(Sym(z3.Int("goal"))) if with_goal else None

    def base_conds(self):
        cs = []
        for lst in self.t + self.s:
            for a, b in itertools.combinations(lst, 2):
                cs.append(a.code.e != b.code.e)         # the parser merges repeated paths within a section
        return cs

    def rules(self, order):
        return VecV([Agg([VecV(list(self.t[i])), VecV(list(self.s[i])), VecV([Str(("lit", "x"))])], "Rule") for i in order])


def oracle(I, st, case):
    """('dup',) | ('missing',) | ('cycle', self_dep, longer) | ('plan', in_plan)"""
    n = len(case.shape)
    eq = lambda a, b: name_eq(I, st, a, b)
    for i in range(n):
        for j in range(i + 1, n):
            for a in case.t[i]:
                for b in case.t[j]:
                    if eq(a, b):
                        return ("dup",)

    def producer(x):
        for i in range(n):
            for a in case.t[i]:
                if eq(a, x):
                    return i
        return None
    e = [[False] * n for _ in range(n)]
    for i in range(n):
        for x in case.s[i]:
            j = producer(x)
            if j is not None:
                e[i][j] = True
    p = [row[:] for row in e]
    for _ in range(n):
        for i in range(n):
            for j in range(n):
                if not p[i][j]:
                    p[i][j] = any(p[i][k] and p[k][j] for k in range(n))
    if case.goal is not None:
        r = producer(case.goal)
        if r is None:
            return ("missing",)
        in_plan = [i == r or p[r][i] for i in range(n)]
    else:
        in_plan = [True] * n
    self_dep = any(in_plan[i] and e[i][i] for i in range(n))
    longer = any(in_plan[i] and any(j != i and e[i][j] and p[j][i] for j in range(n)) for i in range(n))
    if self_dep or longer:
        return ("cycle", self_dep, longer)
    return ("plan", in_plan)


def sort_names(I, st, lst):
    out = []
    for x in lst:
        pos = len(out)
        for i, y in enumerate(out):
            if name_lt(I, st, x, y):
                pos = i
                break
        out.insert(pos, x)
    return out


def describe(st, case, model_of):
    m = model_of(st)
    if m is None:
        return {"rules": [], "goal": None, "names": {}}
    nm = lambda s: "n%d" % m.eval(s.code.e, model_completion=True).as_long() if isinstance(s.code, Sym) else str(s.code)
    rules = ["[%s] <- [%s]" % (",".join(nm(x) for x in case.t[i]), ",".join(nm(x) for x in case.s[i])) for i in range(len(case.shape))]
    return {"rules": rules, "goal": nm(case.goal) if case.goal is not None else None,
            "names": {str(x.code.e): m.eval(x.code.e, model_completion=True).as_long() for lst in case.t + case.s + ([[case.goal]] if case.goal else []) for x in lst}}


def judge(I, st, case, res, failures, model_of, tag=""):
    """compare one run's result with the oracle; appends to failures"""
    exp = oracle(I, st, case)
    eq = lambda a, b: name_eq(I, st, a, b)

    def fail(what):
        failures.append({"what": tag + what, "case": describe(st, case, model_of), "oracle": str(exp), "result": short(res)})
    errs = I.enum_variants("TopologicalSortError")
    if res.idx == 1:
        kind = errs[res.f[0].idx]
        if kind == "TargetInMultipleRules":
            if exp[0] != "dup":
                fail("'target in multiple rules' reported although every path is a target of at most one rule")
        elif kind == "TargetMissing":
            if exp[0] != "missing":
                fail("'target missing' reported although the goal is some rule's target (or no goal was given)")
            elif not eq(res.f[0].f[0], case.goal):
                fail("'target missing' does not name the goal")
        elif kind == "SelfDependentRule":
            if not (exp[0] == "cycle" and exp[1]):
                fail("self-dependence reported but no rule in scope lists its own target as a source")
        elif kind == "CircularDependence":
            if exp[0] == "plan":
                fail("circular dependence reported for an acyclic rule set")
            elif not (exp[0] == "cycle" and exp[2]):
                fail("circular dependence reported where the oracle expects %s" % exp[0])
        else:
            fail("unknown error kind %s" % kind)
        return
    if exp[0] != "plan":
        fail({"dup": "a path is the target of two rules but the rule set was accepted", "missing": "the goal is no rule's target but the rule set was accepted",
              "cycle": "a dependency cycle is reachable but the rule set was accepted"}[exp[0]])
        return
    in_plan = exp[1]
    pack = res.f[0]
    leaves, nodes = pack.f[0].items, pack.f[1].items
    n = len(case.shape)
    if len(nodes) != sum(in_plan):
        fail("the plan does not contain exactly the goal's rule and its transitive prerequisites (or all rules)")
        return
    seen = {}
    for p_, node in enumerate(nodes):
        targets, sidx = node.f[0].items, node.f[1].items
        if not targets:
            fail("a plan entry without targets")
            return
        ridx = None
        for i in range(n):
            if any(eq(targets[0], a) for a in case.t[i]):
                ridx = i
                break
        if ridx is None or not in_plan[ridx] or ridx in seen:
            fail("the plan contains an entry that is no rule in scope, or a rule twice")
            return
        seen[ridx] = p_
        st_t = sort_names(I, st, case.t[ridx])
        if len(targets) != len(st_t) or not all(eq(a, b) for a, b in zip(targets, st_t)):
            fail("a plan entry's targets are not the rule's targets in canonical (sorted) order")
            return
        st_s = sort_names(I, st, case.s[ridx])
        if len(sidx) != len(st_s):
            fail("a plan entry does not bind every source of its rule exactly once")
            return
        for q, name in enumerate(st_s):
            si = sidx[q]
            kind = I.enum_variants("SourceIndex")[si.idx]
            prod = None
            for i in range(n):
                if any(eq(name, a) for a in case.t[i]):
                    prod = i
                    break
            if kind == "Pair":
                pi, sub = si.f[0], si.f[1]
                if prod is None:
                    fail("a plain source file is bound to a rule")
                    return
                if not (pi < p_):
                    fail("a rule is placed before (or at) a rule producing one of its sources")
                    return
                ptargets = nodes[pi].f[0].items
                if not (sub < len(ptargets) and eq(ptargets[sub], name)):
                    fail("a source is bound to the wrong producing rule or the wrong one of its targets")
                    return
            else:
                if prod is not None:
                    fail("a source that some rule produces is treated as a plain file")
                    return
                li = si.f[0]
                if not (li < len(leaves) and eq(leaves[li], name)):
                    fail("a leaf source is bound to the wrong leaf")
                    return
    for a, b in zip(leaves, leaves[1:]):
        if not name_lt(I, st, a, b):
            fail("leaves are not in canonical order or repeat")
            return
    for lf in leaves:
        if not any(in_plan[i] and any(eq(lf, x) for x in case.s[i]) for i in range(n)):
            fail("a leaf in the plan is not a source of any rule in scope")
            return


def short(v, depth=0):
    if isinstance(v, Enum):
        return "%s#%d(%s)" % (v.ty, v.idx, ",".join(short(x, depth + 1) for x in v.f))
    if isinstance(v, Agg):
        return "{%s}" % ",".join(short(x, depth + 1) for x in v.f)
    if isinstance(v, VecV):
        return "[%s]" % ",".join(short(x, depth + 1) for x in v.items)
    if isinstance(v, Str):
        return str(v.code.e) if isinstance(v.code, Sym) else str(v.code)
    return str(v)


def same_result(I, st, a, b):
    if type(a) != type(b):
        return False
    if isinstance(a, Enum):
        return a.idx == b.idx and len(a.f) == len(b.f) and all(same_result(I, st, x, y) for x, y in zip(a.f, b.f))
    if isinstance(a, Agg):
        return len(a.f) == len(b.f) and all(same_result(I, st, x, y) for x, y in zip(a.f, b.f))
    if isinstance(a, VecV):
        return len(a.items) == len(b.items) and all(same_result(I, st, x, y) for x, y in zip(a.items, b.items))
    if isinstance(a, Str):
        return name_eq(I, st, a, b)
    return a == b


# --------------------------------------------------------------------------
# driver
# --------------------------------------------------------------------------

def run_shape(mir, src_texts, shape, with_goal, budget_s, stats, failures, max_fail=3):
    M, used = build_models()
    I = Interp(mir, src_texts, M, crate_fn_index(mir))
    case = Case(shape, with_goal)
    entry = "topological_sort" if with_goal else "topological_sort_all"
    fn = I.get_fn(entry)
    n = len(shape)
    orders = [list(range(n)), list(reversed(range(n)))]

    def model_of(st):
        s = z3.Solver()
        for c in st.pc:
            s.add(c)
        s.check()
        return s.model()

    def make_state():
        st = State()
        st.pc = case.base_conds()
        st.stage = 0
        st.results = []
        locs = {1: case.rules(orders[0])}
        if with_goal:
            locs[2] = Ref([case.goal], 0)
        st.frames.append(FrameS(fn, locs, None, None))
        return st

    def finish(I_, st):
        # stage 0: first input order done; judge it, then run the reversed order on the same path
        if st.stage == 0:
            if not hasattr(st, "judged0"):
                judge(I_, st, case, st.result, st.local_fail, model_of)
                st.judged0 = True
            st.results.append(st.result)
            if n >= 2 and not st.local_fail:
                st.stage = 1
                locs = {1: case.rules(orders[1])}
                if with_goal:
                    locs[2] = Ref([case.goal], 0)
                st.frames.append(FrameS(fn, locs, None, None))
                st.result = None
                while st.frames:
                    I_.step_terminator(st)
        if st.stage == 1 and st.result is not None:
            if not same_result(I_, st, st.results[0], st.result):
                st.local_fail.append({"what": "the plan (or error) depends on the order in which the rules are written", "case": describe(st, case, model_of),
                                      "oracle": "", "result": short(st.results[0]) + " vs " + short(st.result)})
        for f in st.local_fail:
            if len(failures) < max_fail:
                failures.append(f)

    # State needs per-path scratch
    orig_make = make_state

    def make_state2():
        st = orig_make()
        st.local_fail = []
        return st
    try:
        paths, panics = I.explore(make_state2, finish, budget_s=budget_s)
    finally:
        stats["queries"] += I.queries
        stats["solver_s"] += I.solver_s
        stats["forks"] += I.forks
        stats["models"] |= used
    stats["paths"] += paths
    for pc, msg in panics:
        if len(failures) < max_fail:
            s = z3.Solver()
            for c in pc:
                s.add(c)
            s.check()
            st = State()
            st.pc = pc
            failures.append({"what": "the sorter panics: " + msg, "case": describe(st, case, lambda _st: s.model()), "oracle": "", "result": "panic"})
    return paths


def shapes_for(tier):
    """quick: every shape of 1..2 rules (1..2 targets, 0..2 sources each) and the 3-rule shapes with at most
    3 sources in total (single-target) or at most 2 (one two-target rule);
    thorough: the 3-rule shapes with at most 4 sources (3 with a two-target rule), and 4 single-target rules with at most 3 sources."""
    T = [(1, 0), (1, 1), (1, 2), (2, 0), (2, 1), (2, 2)]
    one = [(1, 0), (1, 1), (1, 2)]
    out = []
    for n in (1, 2):
        for sh in itertools.product(T, repeat=n):
            if sum(1 for t, s_ in sh if t == 2) <= 1:
                out.append(list(sh))
    for sh in itertools.product(T, repeat=3):
        twos = sum(1 for t, s_ in sh if t == 2)
        srcs = sum(s_ for t, s_ in sh)
        if twos > 1:
            continue
        lim = (4, 3) if tier == "thorough" else (3, 2)      # (each further symbolic name multiplies the classes by 5-8)
        if (twos == 0 and srcs <= lim[0]) or (twos == 1 and srcs <= lim[1]):
            out.append(list(sh))
    if tier == "thorough":
        for sh in itertools.product(one, repeat=4):
            if sum(s_ for t, s_ in sh) <= 3:
                out.append(list(sh))
    return out


def dump_mir():
    import mir_engine
    return mir_engine.dump_mir()


class _Shim:
    """enum metadata for the concrete (native) judge"""
    def __init__(self, enums):
        self.enums = enums

    def enum_variants(self, ty):
        ty = ty.split("::")[-1]
        return mirint.STD_ENUMS[ty] if ty in mirint.STD_ENUMS else self.enums[ty]


def native_replay(failure, enums):
    """Run the REAL sorter natively (replay crate) on the concrete names of a counterexample and judge
    the native result with the same oracle on concrete names.  -> (reproduced, text, role)"""
    import subprocess
    names = failure["case"]["names"]
    order = sorted(set(names.values()))
    letter = {v: "abcdefghijklmnopqrstuvwxyz"[k] for k, v in enumerate(order)}        # order-preserving spelling
    nrules = 1 + max(int(k[1:].split("_")[0]) for k in names if k[0] == "t")
    rules = []
    for i in range(nrules):
        t = [letter[names[k]] for k in sorted(names) if re.fullmatch(r"t%d_\d+" % i, k)]
        sr = [letter[names[k]] for k in sorted(names) if re.fullmatch(r"s%d_\d+" % i, k)]
        rules.append((t, sr))
    goal = letter[names["goal"]] if "goal" in names else None
    path = os.path.join(WORK, "sort_case.txt")
    with open(path, "w") as f:
        for t, sr in rules:
            f.write("%s|%s\n" % (" ".join(t), " ".join(sr)))
        f.write("goal %s\n" % (goal or "-"))
    env = dict(os.environ)
    env["CARGO_NET_OFFLINE"] = "true"
    env["VERIF_SORT_CASE_TXT"] = path
    p = subprocess.run(["cargo", "test", "--offline", "--quiet", "sort_case_from_env", "--", "--nocapture", "--test-threads", "1"],
                       cwd=os.path.join(VERIF, "replay"), env=env, capture_output=True, text=True, timeout=1200)
    m = re.search(r"SORT-RESULT (\{.*\})", p.stdout)
    if not m:
        return False, "native sorter run gave no result: " + (p.stdout + p.stderr)[-600:], None
    nat = json.loads(m.group(1))
    shim = _Shim(enums)
    code = {l: k for k, l in enumerate("abcdefghijklmnopqrstuvwxyz")}

    def S(x):
        return Str(code[x])
    case = Case.__new__(Case)
    case.shape = [(len(t), len(sr)) for t, sr in rules]
    case.with_goal = goal is not None
    case.t = [[S(x) for x in t] for t, sr in rules]
    case.s = [[S(x) for x in sr] for t, sr in rules]
    case.goal = S(goal) if goal else None

    def to_val(r):
        if "panic" in r:
            return None
        if "err" in r:
            kinds = shim.enum_variants("TopologicalSortError")
            k = kinds.index(r["err"])
            payload = VecV([S(x) for x in r["names"]]) if r["err"] == "CircularDependence" else S(r["names"][0])
            return Enum("Result", 1, [Enum("TopologicalSortError", k, [payload])])
        sk = shim.enum_variants("SourceIndex")
        nodes = []
        for nd in r["ok"]["nodes"]:
            src = [Enum("SourceIndex", sk.index("Leaf"), [x[1]]) if x[0] == "L" else Enum("SourceIndex", sk.index("Pair"), [x[1], x[2]]) for x in nd["src"]]
            nodes.append(Agg([VecV([S(x) for x in nd["targets"]]), VecV(src), VecV([]), Agg(["ticket"])], "Node"))
        return Enum("Result", 0, [Agg([VecV([S(x) for x in r["ok"]["leaves"]]), VecV(nodes)], "NodePack")])
    shown = "rules %s goal %s" % ("; ".join("%s <- %s" % (",".join(t) or "-", ",".join(sr) or "-") for t, sr in rules), goal)
    fwd, rev = to_val(nat["fwd"]), to_val(nat["rev"])
    if fwd is None or rev is None:
        return True, "%s: the native sorter panics" % shown, "sorter: panic"
    fails = []
    judge(shim, None, case, fwd, fails, lambda st: None, "")
    if fails:
        what = fails[0]["what"]
        role = "sort_once: pending sibling taken for an ancestor (false CircularDependence on a DAG)" if "acyclic" in what else "sorter: " + what
        return True, "%s -> natively %s; %s" % (shown, json.dumps(nat["fwd"]), what), role
    if nat["fwd"] != nat["rev"]:
        return True, "%s -> natively %s, but %s with the rules written in reverse order" % (shown, json.dumps(nat["fwd"]), json.dumps(nat["rev"])), "sorter: result depends on the order of the rules in the input"
    return False, "%s -> natively %s: agrees with the oracle" % (shown, json.dumps(nat["fwd"])), None


def _worker(args):
    """one (shape, goal) task in a worker process; returns plain data only"""
    mir_path, sh, with_goal, budget = args
    mir = open(mir_path).read()
    src_texts = [open(os.path.join("/repo/src", f), encoding="utf-8").read() for f in ("sort.rs", "rule.rs")]
    stats = {"queries": 0, "solver_s": 0.0, "forks": 0, "paths": 0, "models": set(), "shapes": 0}
    failures = []
    note = None
    t0 = time.time()
    try:
        run_shape(mir, src_texts, sh, with_goal, budget, stats, failures)
        stats["shapes"] = 1
    except Unsupported as e:
        note = "construct outside the interpreter's closed list (shape %s): %s" % (sh, e)
    except Budget as e:
        note = "shape %s goal=%s: %s" % (sh, with_goal, e)
    stats["models"] = sorted(stats["models"])
    return {"shape": sh, "goal": with_goal, "stats": stats, "failures": failures, "note": note, "wall": time.time() - t0}


def run(pid, tier, seed):
    import multiprocessing
    t0 = time.time()
    mir, err, meta, mir_s = dump_mir()
    inconclusive = []
    failures = []
    stats = {"queries": 0, "solver_s": 0.0, "forks": 0, "paths": 0, "models": set(), "shapes": 0}
    samples = []
    if mir is None:
        inconclusive.append("MIR dump failed: " + err[-400:])
        return failures, inconclusive, stats, samples, mir_s, time.time() - t0
    mir_path = os.path.join(WORK, "mir_dump.txt")
    per_task = 900 if tier == "quick" else 3000     # (a cap against runaway shapes; on an idle machine the largest quick shape takes under a minute)
    shapes = shapes_for(tier)
    # heaviest first, so that the pool stays busy to the end
    tasks = sorted([(mir_path, sh, g, per_task) for sh in shapes for g in (False, True)], key=lambda a: -sum(1 + t + s for t, s in a[1]))
    nproc = int(os.environ.get("VERIF_JOBS_M", "14"))
    with multiprocessing.Pool(nproc) as pool:
        for r in pool.imap_unordered(_worker, tasks):
            for k in ("queries", "solver_s", "forks", "paths", "shapes"):
                stats[k] += r["stats"][k]
            stats["models"] |= set(r["stats"]["models"])
            for f in r["failures"]:
                if len(failures) < 6:
                    failures.append(f)
            if r["note"]:
                inconclusive.append(r["note"])
            if len(samples) < 8 and r["stats"]["paths"]:
                samples.append({"shape_(targets,sources)_per_rule": r["shape"], "goal": r["goal"], "paths": r["stats"]["paths"], "wall_s": round(r["wall"], 1)})
    if stats["shapes"] < len(tasks) and not inconclusive:
        inconclusive.append("only %d of %d shapes completed" % (stats["shapes"], len(tasks)))
    return failures, inconclusive[:8], stats, samples, mir_s, time.time() - t0


def run_cached(pid, tier, seed):
    import hashlib
    h = hashlib.sha256()
    h.update(open("/repo/src/sort.rs", "rb").read())
    h.update(open("/repo/src/rule.rs", "rb").read())
    for f in ("sort_engine.py", "mirint.py"):
        h.update(open(os.path.join(VERIF, "lib", f), "rb").read())
    h.update(("%s %s" % (tier, seed)).encode())
    dig = h.hexdigest()[:24]
    cache = os.path.join(WORK, "sort_cache_%s.json" % tier)
    if os.environ.get("VERIF_NO_CACHE") != "1" and os.path.exists(cache):
        try:
            c = json.load(open(cache))
            if c.get("digest") == dig:
                st = c["stats"]
                st["models"] = set(st["models"])
                return c["failures"], c["inconclusive"], st, c["samples"], c["mir_s"], c["wall"]
        except Exception:
            pass
    failures, inconclusive, stats, samples, mir_s, wall = run(pid, tier, seed)
    st = dict(stats)
    st["models"] = sorted(stats["models"])
    if not inconclusive:        # (a run cut short by a budget is never reused)
        try:
            json.dump({"digest": dig, "failures": failures, "inconclusive": inconclusive, "stats": st, "samples": samples, "mir_s": mir_s, "wall": wall}, open(cache, "w"))
        except TypeError:
            pass
    return failures, inconclusive, stats, samples, mir_s, wall


# which of the sorter's clauses other properties rest on (C12 owns all of them)
RELEVANT = {
    "C09": ["the plan does not contain exactly the goal's rule", "the plan contains an entry that is no rule in scope", "'target missing'", "the goal is no rule's target"],
    "C03": ["a rule is placed before (or at) a rule producing one of its sources", "a source is bound to the wrong producing rule", "a plan entry does not bind every source",
            "a source that some rule produces is treated as a plain file", "a plain source file is bound to a rule", "a leaf source is bound to the wrong leaf"],
}


def check(pid, tier, seed):
    """-> (exit_code, evidence dict, stdout lines)"""
    import findings
    failures, inconclusive, stats, samples, mir_s, wall = run_cached(pid, tier, seed)
    if pid in RELEVANT:
        failures = [f for f in failures if any(k in f["what"] for k in RELEVANT[pid])]
    known = findings.load()
    enums, _ = mirint.crate_types([open("/repo/src/sort.rs", encoding="utf-8").read()])
    lines, reported, known_hits = [], [], []
    exit_code = 0
    replayed = 0
    os.makedirs(os.path.join(VERIF, "replays"), exist_ok=True)
    seen_roles = set()
    for k, f in enumerate(failures):
        replayed += 1
        rep, text, role = native_replay(f, enums)
        path = os.path.join(VERIF, "replays", "%s_M_%d.json" % (pid, k))
        json.dump({"property": pid, "engine": "M/sorter", "what": f["what"], "case": f["case"], "oracle": f["oracle"], "symbolic_result": f["result"],
                   "native": text, "reproduced": rep, "role": role}, open(path, "w"), indent=1)
        if rep:
            if role in seen_roles:
                continue
            seen_roles.add(role)
            kf = findings.match(known, pid, {"role": role})
            if kf:
                known_hits.append(kf)
                lines.append("KNOWN-FINDING: property=%s %s" % (pid, kf["what"]))
            else:
                lines.append("VIOLATION property=%s replay=%s" % (pid, path))
                reported.append({"what": f["what"], "native": text, "replay": path})
                exit_code = 1
        else:
            inconclusive.append("solver counterexample (%s) did not reproduce natively: %s" % (f["what"], text))
    if exit_code == 0 and inconclusive:
        exit_code = 2
    funcs = []
    for fn_ in ("topological_sort", "topological_sort_all", "rules_to_frame_buffer", "sort_once", "get_result", "visit", "from_rule_and_index"):
        span = gen.function_span("sort", fn_)
        funcs.append({"file": "src/sort.rs", "fn": fn_, "lines": list(span[:2]) if span else None, "sha": span[2] if span else None})
    evidence = {
        "property_id": pid, "tier": tier, "seed": seed, "level": "model_checking",
        "coverage": {
            "evaluations": stats["queries"] + stats["paths"],
            "distinct_nontrivial": stats["paths"],
            "rule": "one evaluation = one solver query (feasibility of a comparison outcome under the path condition) or one completed path; distinct_nontrivial = completed paths: each is a distinct pattern of equalities / order among the symbolic names, on which the code's result was compared with the oracle for ALL names realising the pattern, for both input orders",
            "samples": samples,
            "states": stats["paths"], "transitions": stats["forks"], "traces_validated_against_impl": replayed,
            "shapes_explored": stats["shapes"], "forks": stats["forks"],
            "functions_encoded": funcs,
            "encoding": "rustc nightly -Zunpretty=mir of the regenerated copy of /repo/src -> lib/mirint.py path-forking interpretation with symbolic names -> z3 %s; MIR dump %.1fs" % (z3.get_version_string(), mir_s),
            "bounds": "quick: every shape of 1..2 rules (1..2 targets, 0..2 sources each, at most one two-target rule) and the 3-rule shapes with <= 3 sources in total (<= 2 when one rule has two targets); thorough: the 3-rule shapes with <= 4 sources in total (<= 3 when one rule has two targets) and 4 single-target rules with <= 3 sources; names unconstrained (any strings: only = and < are observed); goal none / any name; both input orders",
            "library_models": sorted(stats["models"]),
            "solver_queries": stats["queries"], "solver_time_s": round(stats["solver_s"], 2),
            "counterexamples_replayed_natively": replayed,
            "known_findings_hit": [k_["id"] for k_ in known_hits],
            "inconclusive": inconclusive,
            "outside_the_claim": "more than 3 (4) rules, more than 2 sources or targets per rule, more than one multi-target rule; strings are abstracted to their equality and order (a change that inspects their text, e.g. a prefix test, is outside the interpreter's closed list and makes the run inconclusive)",
            "exhaustive": False,
        },
        "assumptions": ["String / &str are used only through equality, ordering, hashing and cloning (any other use is an unmodelled callee => inconclusive)",
                        "std containers behave as documented (closed model list in lib/sort_engine.py)",
                        "rustc's MIR is what gets compiled"],
        "wall_s": round(wall, 1),
        "violations": len(reported),
    }
    return exit_code, evidence, lines, inconclusive, stats


if __name__ == "__main__":
    pid = sys.argv[1] if len(sys.argv) > 1 else "C12"
    tier = sys.argv[2] if len(sys.argv) > 2 else "quick"
    seed = int(sys.argv[3]) if len(sys.argv) > 3 else 0
    code, ev, lines, inc, stats = check(pid, tier, seed)
    if "--json" in sys.argv:
        json.dump({"exit_code": code, "evidence": ev, "lines": lines, "inconclusive": inc,
                   "summary": [["sorter (%d shapes, %d forks)" % (stats["shapes"], stats["forks"]), stats["queries"], stats["paths"], round(stats["solver_s"], 1), [l for l in lines][:2]]]},
                  open(sys.argv[sys.argv.index("--json") + 1], "w"), indent=1)
    print("  M/sorter: shapes=%d paths=%d forks=%d queries=%d solver=%.1fs" % (stats["shapes"], stats["paths"], stats["forks"], stats["queries"], stats["solver_s"]))
    for i_ in inc:
        print("INCONCLUSIVE", i_)
    for l in lines:
        print(l)
    print("engine M %s %s: exit %d (%.0fs)" % (pid, tier, code, ev["wall_s"]))
    sys.exit(code)
