"""Engine M for the build protocol (C03, C04, C05, C09, C10, C20 and the hash
hand-off of C01/C02): the MIR of the real build() and clean() -- ChannelPack::new,
both spawn loops and both worker closures, wait_for_sources_ticket, Packet, the
join loop, banner selection, error collection, history write-back -- is
interpreted (lib/mirint.py) over a model of std::thread / std::sync::mpsc:

  * every spawned closure is a thread with its own frame stack; a deterministic
    scheduler runs the lowest-numbered thread that can move; recv and join block;
    if no thread can move before all have ended, that is a deadlock (C05);
  * threads are deterministic and talk only through single-writer single-reader
    channels with blocking reads (a Kahn network), so the ONE thing a thread can
    observe of the schedule is whether a send finds its receiver already dropped.
    That is made a solver-decided fork at every send, and a branch is discarded
    (Infeasible) when it contradicts causality, tracked with vector clocks: a
    failed send must not happen-before the receiver's drop, a successful one
    must not happen-after it, nobody receives on an edge whose send failed.
    Every schedule's outcome is therefore the outcome of some explored path.

Its neighbours are models with SYMBOLIC outcomes, each outcome a solver-decided
fork: directory::init, get_nodes (returns the plan under test and checks the
scope it is asked for), handle_source_only_node (leaf present/missing),
handle_rule_node (fails / built / per-target resolutions; asserts what it is
handed), clean_targets, History / RuleHistory lookups, CurrentFileStates,
System::is_file/is_dir, Printer.  Plans (shapes) are enumerated; within a plan
every placement of failures and every reported outcome is explored.
"""
import copy
import itertools
import json
import os
import re
import sys
import time

import z3

sys.path.insert(0, "/verif/lib")
import gen
import mirint
from mirint import (Infeasible, Interp, State, FrameS, CallMir, Sym, Str, Agg, Enum, VecV, MapV, SetV, Ref, BoxCell, IterV, UNIT, none, some,
                    Unsupported, Budget, Panic, Fork)
import sort_engine

VERIF = "/verif"
WORK = os.path.join(VERIF, "work")


class Tk:
    """an opaque, comparable token (tickets, system handles, ...)"""
    __slots__ = ("v",)

    def __init__(self, v):
        self.v = v

    def __deepcopy__(self, memo):
        return self

    def __eq__(self, o):
        return isinstance(o, Tk) and self.v == o.v

    def __hash__(self):
        return hash(self.v)

    def __repr__(self):
        return "Tk%r" % (self.v,)


def lit(s):
    return Str(("lit", s))


def deref(v):
    return v.get() if isinstance(v, Ref) else v


def text_of(v):
    v = deref(v)
    if isinstance(v, Str) and isinstance(v.code, tuple):
        return v.code[1]
    raise Unsupported("text of a non-literal string")


# --------------------------------------------------------------------------
# plans
# --------------------------------------------------------------------------

class Plan:
    """nodes: [(ntargets, [("L", j) | ("P", i, s)])], nleaves"""
    def __init__(self, nodes, nleaves):
        self.nodes, self.nleaves = nodes, nleaves

    def target(self, k, s):
        return "t%d_%d" % (k, s)

    def leaf(self, j):
        return "leaf%d" % j

    def describe(self):
        return {"leaves": [self.leaf(j) for j in range(self.nleaves)],
                "rules": [{"targets": [self.target(k, s) for s in range(nt)],
                           "sources": [self.leaf(x[1]) if x[0] == "L" else self.target(x[1], x[2]) for x in srcs]} for k, (nt, srcs) in enumerate(self.nodes)]}


def plan_value(I, plan):
    si = I.enum_variants("SourceIndex")
    leaves = VecV([lit(plan.leaf(j)) for j in range(plan.nleaves)])
    nodes = []
    for k, (nt, srcs) in enumerate(plan.nodes):
        sidx = [Enum("SourceIndex", si.index("Leaf"), [x[1]]) if x[0] == "L" else Enum("SourceIndex", si.index("Pair"), [x[1], x[2]]) for x in srcs]
        nodes.append(Agg([VecV([lit(plan.target(k, s)) for s in range(nt)]), VecV(sidx), VecV([lit("cmd%d" % k)]), Tk(("rule", k))], "Node"))
    return Agg([leaves, VecV(nodes)], "NodePack")


# --------------------------------------------------------------------------
# monitors / channel model
# --------------------------------------------------------------------------

def mon(st):
    if not hasattr(st, "mon"):
        st.mon = {"chan": [], "viol": [], "spawned": 0, "finished": 0, "leaf_entered": {}, "leaf_ok": set(), "node_entered": {}, "node_ok": set(),
                  "notes": [], "hist_read": {}, "hist_written": {}, "table_writes": 0, "inserted_blobs": 0, "banners": [], "errors_printed": 0, "fail": {}, "built": {}, "res": {}}
    return st.mon


def thr(st):
    if not hasattr(st, "thr"):
        st.thr = {"cur": 0, "next": 1, "stacks": {0: st.frames}, "status": {0: "run"}, "wait": {}, "result": {}, "did": {}, "recvd": {}, "clock": {0: {0: 0}}}
    return st.thr


def tick(st):
    """advance the running thread's own component of its vector clock; -> a copy of the clock"""
    t = thr(st)
    c = t["clock"].setdefault(t["cur"], {})
    c[t["cur"]] = c.get(t["cur"], 0) + 1
    return dict(c)


def note(st, what):
    m = mon(st)
    if what not in m["notes"]:
        m["notes"].append(what)


def switch(st, tid):
    t = thr(st)
    t["cur"] = tid
    st.frames = t["stacks"][tid]


def schedule(I, st):
    """called when the running thread blocked or ended: the lowest-numbered thread that can make a step runs next.
    (threads are deterministic and only read from single-writer single-reader channels with blocking reads, so with
    the K monitors clear every fair schedule gives each thread the same inputs: one schedule stands for all)"""
    t = thr(st)
    m = mon(st)
    for tid in sorted(t["status"]):
        s = t["status"][tid]
        if s == "run":
            return switch(st, tid)
        if s == "blocked":
            w = t["wait"][tid]
            if isinstance(w, tuple):
                ok = t["status"].get(w[1]) == "done"
            else:
                ch = m["chan"][w]
                ok = bool(ch["queue"]) or ch["s_dropped"]
            if ok:
                t["status"][tid] = "run"
                return switch(st, tid)
    blocked = sorted(tid for tid, s in t["status"].items() if s == "blocked")
    m["deadlock"] = ["thread %d (%s) waits for %s" % (tid, t["did"].get(tid, "main" if tid == 0 else "a rule thread before its work"),
                                                     ("thread %d to end" % t["wait"][tid][1]) if isinstance(t["wait"][tid], tuple) else "a packet on edge %d" % t["wait"][tid]) for tid in blocked]
    st.frames = []
    st.result = None


def block_hook(I, st):
    t = thr(st)
    t["status"][t["cur"]] = "blocked"
    schedule(I, st)


def thread_hook(I, st, rv):
    t = thr(st)
    cur = t["cur"]
    t["status"][cur] = "done"
    t["result"][cur] = rv
    if cur == 0:
        st.result = rv
        return
    mon(st)["finished"] += 1
    schedule(I, st)


def viol(st, tag, what):
    m = mon(st)
    if (tag, what) not in m["viol"]:
        m["viol"].append((tag, what))


def drop_walk(I, st, v, seen=None):
    """mark every channel endpoint inside a dropped value"""
    if seen is None:
        seen = set()
    if id(v) in seen:
        return
    seen.add(id(v))
    m = mon(st)
    if isinstance(v, Agg):
        if v.ty == "Sender":
            ch = m["chan"][v.f[0]]
            if not ch["s_dropped"]:
                ch["s_dropped"] = True
                if ch["sent"] == 0 and not ch["failed"]:
                    note(st, "a sender was dropped without a packet having been sent on its edge")
            return
        if v.ty == "Receiver":
            ch = m["chan"][v.f[0]]
            if not ch["r_dropped"]:
                ch["r_dropped"] = True
                d = tick(st)
                ch["drop_clock"] = d
                ch["drop_by"] = thr(st)["cur"]
                # sends assumed to have found this receiver gone must not causally precede this drop
                for s_tid, idx in ch["failed"]:
                    if d.get(s_tid, 0) >= idx:
                        raise Infeasible()
                if ch["queue"]:
                    note(st, "a receiver was dropped with an unread packet in its channel")
            return
        for x in v.f:
            drop_walk(I, st, x, seen)
    elif isinstance(v, Enum):
        for x in v.f:
            drop_walk(I, st, x, seen)
    elif isinstance(v, VecV):
        for x in v.items:
            drop_walk(I, st, x, seen)
    elif isinstance(v, IterV):
        if v.kind == "list":
            for x in v.src[v.pos:]:
                drop_walk(I, st, x, seen)
    elif isinstance(v, list):
        for x in v:
            drop_walk(I, st, x, seen)


# --------------------------------------------------------------------------
# models
# --------------------------------------------------------------------------

def add_generic_models(add):
    """std functions over concrete containers, iterator adaptors with closures (shared by the protocol and parser executors)"""
    # --- a wider closed list of std functions over concrete containers (so that small rewrites of build() stay decidable)
    def items_of(v):
        v = deref(v)
        if isinstance(v, VecV):
            return v.items
        if isinstance(v, list):
            return v
        raise Unsupported("slice view of %s" % type(v).__name__)

    def sl_first(I, st, a):
        it = items_of(a[0])
        return some(Ref(it, 0)) if it else none()
    add(r"core::slice::<impl \[.*\]>::first", sl_first, "slice::first")

    def sl_last(I, st, a):
        it = items_of(a[0])
        return some(Ref(it, len(it) - 1)) if it else none()
    add(r"core::slice::<impl \[.*\]>::last", sl_last, "slice::last")

    def sl_get(I, st, a):
        it = items_of(a[0])
        i = a[1]
        if not isinstance(i, int):
            raise Unsupported("slice::get with a non-integer index")
        return some(Ref(it, i)) if i < len(it) else none()
    add(r"core::slice::<impl \[.*\]>::get::<usize>", sl_get, "slice::get(i)")
    add(r"core::slice::<impl \[.*\]>::len", lambda I, st, a: len(items_of(a[0])), "slice::len")
    add(r"core::slice::<impl \[.*\]>::is_empty", lambda I, st, a: len(items_of(a[0])) == 0, "slice::is_empty")

    def vec_pop(I, st, a):
        it = items_of(a[0])
        return some(it.pop()) if it else none()
    add(r"Vec::<.*>::pop", vec_pop, "Vec::pop")

    def vec_remove(I, st, a):
        it = items_of(a[0])
        if not isinstance(a[1], int) or a[1] >= len(it):
            raise Panic("removal index out of bounds")
        return it.pop(a[1])
    add(r"Vec::<.*>::(remove|swap_remove)", vec_remove, "Vec::remove(i)")

    def structural(v):
        v = deref(v)
        if isinstance(v, (bool, int, Tk)):
            return v
        if isinstance(v, Str):
            if not (isinstance(v.code, tuple) and v.code[0] == "lit"):
                raise Unsupported("structural comparison of a string whose text is symbolic")
            return ("str", v.code)
        if isinstance(v, Enum):
            return ("enum", v.ty, v.idx, tuple(structural(x) for x in v.f))
        if isinstance(v, Agg):
            if v.ty in ("Sender", "Receiver"):
                raise Unsupported("comparison of channel endpoints")
            return ("agg", tuple(structural(x) for x in v.f))
        if isinstance(v, VecV):
            return ("vec", tuple(structural(x) for x in v.items))
        if v is UNIT:
            return ()
        raise Unsupported("structural comparison of %s" % type(v).__name__)
    add(r"<.* as PartialEq(<.*>)?>::eq", lambda I, st, a: structural(a[0]) == structural(a[1]), "PartialEq::eq on concrete values (structural)")
    add(r"<.* as PartialEq(<.*>)?>::ne", lambda I, st, a: structural(a[0]) != structural(a[1]), "PartialEq::ne on concrete values (structural)")

    def gen_clone(I, st, a):
        v = deref(a[0])
        structural(v)           # (refuses channel endpoints and anything it cannot see through)
        return copy.deepcopy(v)
    add(r"<(FileResolution|WorkOption|std::string::String|Vec<.*>|std::option::Option<.*>|usize|bool) as Clone>::clone", gen_clone, "Clone::clone on plain data (deep copy)")

    def opt_unwrap_or(I, st, a):
        return a[0].f[0] if a[0].idx == 1 else a[1]
    add(r"(std::option::)?Option::<.*>::unwrap_or", opt_unwrap_or, "Option::unwrap_or")

    def opt_expect(I, st, a):
        if a[0].idx == 0:
            raise Panic("Option::expect on None")
        return a[0].f[0]
    add(r"(std::option::)?Option::<.*>::expect", opt_expect, "Option::expect panics on None")
    add(r"(std::option::)?Option::<&.*>::(cloned|copied)", lambda I, st, a: some(copy.deepcopy(deref(a[0].f[0]))) if a[0].idx == 1 else none(), "Option<&T>::cloned / copied")

    def res_unwrap(I, st, a):
        if a[0].idx != 0:
            raise Panic("called `Result::unwrap()` on an `Err` value")
        return a[0].f[0]
    add(r"(std::result::)?Result::<.*>::(unwrap|expect)", res_unwrap, "Result::unwrap / expect panic on Err")
    add(r"(std::result::)?Result::<.*>::is_ok", lambda I, st, a: deref(a[0]).idx == 0, "Result::is_ok")
    add(r"(std::result::)?Result::<.*>::is_err", lambda I, st, a: deref(a[0]).idx == 1, "Result::is_err")
    add(r"(std::result::)?Result::<.*>::ok", lambda I, st, a: some(a[0].f[0]) if a[0].idx == 0 else none(), "Result::ok")

    def it_rev(I, st, a):
        it = a[0]
        if isinstance(it, IterV) and it.kind == "list":
            return IterV("list", list(reversed(it.src[it.pos:])))
        if isinstance(it, IterV) and it.kind == "slice":
            return IterV("list", [Ref(it.src.items, i) for i in reversed(range(it.pos, len(it.src.items)))])
        raise Unsupported("rev() of this iterator")
    add(r"<.* as Iterator>::rev", it_rev, "Iterator::rev over a vector / slice iterator")

    def it_enum_any(I, st, a):
        it = a[0]
        if isinstance(it, IterV) and it.kind == "list":
            return IterV("list", [Agg([i, x]) for i, x in enumerate(it.src[it.pos:])])
        if isinstance(it, IterV) and it.kind == "slice":
            return IterV("enum", None, inner=it)
        raise Unsupported("enumerate() of this iterator")
    add(r"<.* as Iterator>::enumerate", it_enum_any, "Iterator::enumerate over a vector / slice iterator")

    def it_zip(I, st, a):
        def lst(it):
            it = IterV("list", list(it.items)) if isinstance(it, VecV) else (IterV("slice", it.get()) if isinstance(it, Ref) and isinstance(it.get(), VecV) else it)
            if isinstance(it, IterV) and it.kind == "list":
                return list(it.src[it.pos:])
            if isinstance(it, IterV) and it.kind == "slice":
                return [Ref(it.src.items, i) for i in range(it.pos, len(it.src.items))]
            raise Unsupported("zip() of this iterator")
        x, y = lst(a[0]), lst(a[1])
        return IterV("list", [Agg([p, q]) for p, q in zip(x, y)])
    add(r"<.* as Iterator>::zip::<.*>", it_zip, "Iterator::zip of vector / slice iterators")
    add(r"<.* as Iterator>::count", lambda I, st, a: len(a[0].src[a[0].pos:]) if a[0].kind == "list" else len(a[0].src.items) - a[0].pos, "Iterator::count")

    def vec_extend(I, st, a):
        v = deref(a[0])
        it = a[1]
        if isinstance(it, VecV):
            v.items.extend(it.items)
        elif isinstance(it, IterV) and it.kind == "list":
            v.items.extend(it.src[it.pos:])
        else:
            raise Unsupported("Vec::extend from this iterator")
        return UNIT
    add(r"<Vec<.*> as Extend<.*>>::extend::<.*>", vec_extend, "Vec::extend from a vector / its iterator")

    def into_iter(I, st, a):
        v = a[0]
        if isinstance(v, VecV):
            return IterV("list", list(v.items))
        if isinstance(v, Ref) and isinstance(v.get(), VecV):
            return IterV("slice", v.get())
        return v
    add(r"<.* as IntoIterator>::into_iter", into_iter, "IntoIterator::into_iter for Vec (by value), &Vec, ranges and iterators")

    # --- iterator adaptors with closures (ChannelPack::new)
    def it_map(I, st, a):
        return IterV("map", None, inner=a[0], end=a[1])
    add(r"<.* as Iterator>::map::<.*>", it_map, "Iterator::map (lazy)")

    def collect(I, st, a):
        it = a[0]
        if not (isinstance(it, IterV) and it.kind == "map"):
            raise Unsupported("collect on a non-map iterator")
        inner = it.inner
        items = inner.src[inner.pos:] if inner.kind == "list" else None
        if items is None:
            raise Unsupported("collect over iterator kind %s" % inner.kind)
        clo = it.end
        loc = re.search(r"\{closure@([^}]*)\}", clo.ty).group(1)
        fname = I.closure_fns.get(loc)
        if not items:
            return VecV([])
        cell = [clo]
        return CallMir(fname, [Ref(cell, 0), items[0]], {"kind": "collect", "fname": fname, "cell": cell, "rest": list(items[1:]), "out": []})
    add(r"<(std::iter::)?Map<.*> as Iterator>::collect::<.*>", collect, "Iterator::collect over map(closure)")


def build_models(plan, opts):
    M, used = sort_engine.build_models()        # containers, iterators, Option, ? operator, vec![x]
    extra = []

    def add(rx, fn, doc):
        def wrapped(I, st, a, fn=fn, doc=doc):
            used.add(doc)
            return fn(I, st, a)
        extra.append((re.compile(rx), wrapped, doc))

    tok = lambda name: (lambda I, st, a: Tk((name,)))
    ident = lambda I, st, a: a[0]

    # --- environment of build()
    add(r"init::<SystemType>", lambda I, st, a: Enum("Result", 0, [Agg([Tk(("table",)), Tk(("cache",)), Tk(("history",))], "Elements")]), "directory::init -> Ok(elements)")
    add(r"DownloadUrls::new", lambda I, st, a: Agg([VecV([])], "DownloadUrls"), "DownloadUrls::new (no urls file)")
    def get_nodes(I, st, a):
        files = [text_of(x) for x in a[1].items] if isinstance(a[1], VecV) else None
        g = a[2]
        asked = (text_of(g.f[0]) if g.idx == 1 else None) if isinstance(g, Enum) else "?"
        if files != ["build.rules"] or asked != opts.get("goal"):
            viol(st, "C09", "the plan was made for rules files / a goal other than the ones the caller gave (%s: the scope of the %s changes)" % (
                "goal %r instead of %r" % (asked, opts.get("goal")), opts.get("program", "build")))
        return Enum("Result", 0, [plan_value(I, plan)])
    add(r"get_nodes::<SystemType>", get_nodes, "get_nodes -> Ok(the plan under test); checks that it is asked for the caller's rules files and goal")

    def sys_probe(kind):
        def f(I, st, a):
            return I.decide(st, z3.Bool("%s_%s" % (kind, text_of(a[1]))))
        return f
    add(r"<SystemType as (\w+::)*System>::is_file", sys_probe("is_file"), "System::is_file: solver-chosen")
    add(r"<SystemType as (\w+::)*System>::is_dir", sys_probe("is_dir"), "System::is_dir: solver-chosen")
    add(r"<SystemType as Clone>::clone", tok("system"), "System::clone")
    add(r"<SysCache<SystemType> as Clone>::clone", tok("cache"), "SysCache::clone")
    add(r"<DownloaderCache as Clone>::clone", tok("dlcache"), "DownloaderCache::clone")
    add(r"DownloaderCache::new", tok("dlcache"), "DownloaderCache::new")
    add(r"DownloaderHistory::new", tok("dlhist"), "DownloaderHistory::new")
    add(r"DownloaderHistory::get_rule_history", tok("dlrulehist"), "DownloaderHistory::get_rule_history")
    add(r"<Ticket as Clone>::clone", lambda I, st, a: deref(a[0]), "Ticket::clone")
    add(r"<std::string::String as Deref>::deref", ident, "String::deref")
    add(r"<std::string::String as PartialEq<&str>>::ne", lambda I, st, a: text_of(a[0]) != text_of(deref(a[1])), "String != &str on literal text")
    add(r"must_use::<.*>", ident, "must_use")
    add(r"format", tok("formatted"), "format! -> opaque text")
    add(r"(core::fmt::rt::)?Argument::<'_>::new_display::<.*>", tok("fmtarg"), "fmt argument")
    add(r"(core::fmt::)?Arguments::<'_>::new::<.*>", tok("fmtargs"), "fmt arguments")

    def take_blob(I, st, a):
        paths = a[1]
        return Agg([VecV(list(paths.items))], "Blob")
    add(r"CurrentFileStates::<SystemType>::take_blob", take_blob, "CurrentFileStates::take_blob -> blob of exactly the given paths")

    def insert_blob(I, st, a):
        mon(st)["inserted_blobs"] += 1
        return UNIT
    add(r"CurrentFileStates::<SystemType>::insert_blob", insert_blob, "CurrentFileStates::insert_blob (recorded)")

    def to_file(I, st, a):
        mon(st)["table_writes"] += 1
        return Enum("Result", 0, [UNIT])
    add(r"CurrentFileStates::<SystemType>::to_file", to_file, "CurrentFileStates::to_file (recorded)")
    add(r"Blob::get_paths", lambda I, st, a: VecV(list(deref(a[0]).f[0].items)), "Blob::get_paths")
    add(r"HandleNodeInfo::<SystemType>::new", lambda I, st, a: Agg([a[0], Agg([VecV([])], "Blob")], "HandleNodeInfo"), "HandleNodeInfo::new")

    def read_hist(I, st, a):
        t = deref(a[1])
        k = t.v[1] if isinstance(t, Tk) and t.v[0] == "rule" else None
        m = mon(st)
        bad = bool(opts.get("history_errors")) and k is not None and I.decide(st, z3.Bool("hist_err_%d" % k))
        m["hist_read"][k] = m["hist_read"].get(k, 0) + 1
        if bad:
            if True:
                m["fail"][("hist", k)] = True
                return Enum("Result", 1, [Enum("HistoryError", 1, [lit("h")])])
        return Enum("Result", 0, [Tk(("rulehistory", k))])
    add(r"History::<SystemType>::read_rule_history", read_hist, "History::read_rule_history -> Ok (or, thorough, Err chosen by the solver)")

    def write_hist(I, st, a):
        t = a[1]
        k = t.v[1] if isinstance(t, Tk) and t.v[0] == "rule" else None
        m = mon(st)
        m["hist_written"][k] = m["hist_written"].get(k, 0) + 1
        h = a[2]
        if not (isinstance(h, Tk) and h.v == ("rulehistory", k)):
            viol(st, "C02", "the history written back for a rule is not the history that rule's thread returned")
        return Enum("Result", 0, [UNIT])
    add(r"History::<SystemType>::write_rule_history", write_hist, "History::write_rule_history (recorded)")

    def hist_lookup(I, st, a):
        h = deref(a[0])
        if not (isinstance(h, Tk) and h.v[0] == "rulehistory"):
            raise Unsupported("get_file_state_vec on something that is not a rule history")
        k = h.v[1]
        if I.decide(st, z3.Bool("history_knows_sources_%s" % k)):
            cell = [Agg([[Tk(("t", k, s_)) for s_ in range(plan.nodes[k][0])]], "FileStateVec")]
            return some(Ref(cell, 0))
        return none()
    add(r"RuleHistory::get_file_state_vec", hist_lookup, "RuleHistory::get_file_state_vec: an entry with the remembered target hashes, or none, chosen by the solver")

    # --- hashing of source hashes: an ideal hash = the sequence of inputs
    add(r"TicketFactory::new", lambda I, st, a: Agg([[]], "TicketFactory"), "TicketFactory::new")

    def tf_input(I, st, a):
        deref(a[0]).f[0].append(a[1])
        return UNIT
    add(r"TicketFactory::input_ticket", tf_input, "TicketFactory::input_ticket appends to the hashed sequence")
    add(r"TicketFactory::result", lambda I, st, a: Tk(("hash", tuple(x.v for x in deref(a[0]).f[0]))), "TicketFactory::result = ideal hash of the sequence")

    def fsv_get(I, st, a):
        items = deref(a[0]).f[0]
        i = a[1]
        if not isinstance(i, int) or i >= len(items):
            raise Panic("index out of bounds: FileStateVec::get_ticket(%r) on %d entries" % (i, len(items)))
        return items[i]
    add(r"FileStateVec::get_ticket", fsv_get, "FileStateVec::get_ticket(i) (bounds-checked)")

    # --- threads and channels: a deterministic scheduler over per-thread frame stacks, with Kahn monitors
    def channel(I, st, a):
        m = mon(st)
        m["chan"].append({"queue": [], "sent": 0, "received": False, "s_dropped": False, "r_dropped": False, "failed": [], "drop_clock": None, "drop_by": None})
        cid = len(m["chan"]) - 1
        return Agg([Agg([cid], "Sender"), Agg([cid], "Receiver")])
    add(r"(\w+::)*channel::<Packet>", channel, "mpsc::channel")

    def send(I, st, a):
        """Sender::send never blocks; it fails iff the receiver is gone.  Whether the receiver is gone WHEN the send
        happens is the one thing a thread can observe of the schedule, so it is a solver-decided fork; the branch is
        discarded later if it contradicts causality (vector clocks): a send that failed must not happen-before the
        drop, a send that succeeded must not happen-after it, and nobody receives on an edge whose send failed"""
        m = mon(st)
        t = thr(st)
        cur = t["cur"]
        cid = deref(a[0]).f[0]
        ch = m["chan"][cid]
        gone = True if ch["failed"] else I.decide(st, z3.Bool("edge%d_send%d_finds_receiver_gone" % (cid, ch["sent"] + len(ch["failed"]))))
        myclock = t["clock"].setdefault(cur, {})
        if ch["r_dropped"] and not gone:
            # succeeded although, in this run's order, the drop came first: only if the drop does not happen-before this send
            if myclock.get(ch["drop_by"], 0) >= ch["drop_clock"].get(ch["drop_by"], 0):
                raise Infeasible()
        c = tick(st)
        if gone:
            ch["failed"].append((cur, c[cur]))
            return Enum("Result", 1, [Agg([a[1]], "SendError")])
        if ch["sent"] >= 1:
            note(st, "more than one packet was sent on one edge")
        ch["sent"] += 1
        pk = a[1]
        is_hash = isinstance(pk, Agg) and pk.f and isinstance(pk.f[0], Enum) and pk.f[0].idx == 0
        if is_hash and t["did"].get(cur) is None:
            viol(st, "C03", "a hash packet was sent to a dependent before the sender's own work (examining the leaf / bringing the rule's targets up to date) had been done")
        ch["queue"].append((a[1], c, t["did"].get(cur)))
        return Enum("Result", 0, [UNIT])
    add(r"(\w+::)*Sender::<Packet>::send", send, "Sender::send: never blocks; Ok, or Err when the receiver is gone (a fork, checked against causality)")

    def recv(I, st, a):
        t = thr(st)
        cid = deref(a[0]).f[0]
        ch = mon(st)["chan"][cid]
        if ch["queue"]:
            pk, c, origin = ch["queue"].pop(0)
            ch["received"] = True
            mine = t["clock"].setdefault(t["cur"], {})
            for k_, v_ in c.items():
                if mine.get(k_, 0) < v_:
                    mine[k_] = v_
            tick(st)
            # a send assumed to have found this receiver gone comes after every receive on the edge
            for s_tid, idx in ch["failed"]:
                if mine.get(s_tid, 0) >= idx:
                    raise Infeasible()
            t["recvd"].setdefault(t["cur"], []).append(origin)
            return Enum("Result", 0, [pk])
        if ch["failed"]:
            raise Infeasible()          # waiting on an edge whose sender was assumed to have found the receiver gone
        if ch["s_dropped"]:
            return Enum("Result", 1, [Agg([], "RecvError")])
        t["wait"][t["cur"]] = cid
        return mirint.BLOCK
    add(r"(\w+::)*Receiver::<Packet>::recv", recv, "Receiver::recv blocks the thread until a packet is there or the sender is gone")

    def spawn(I, st, a):
        clo = a[0]
        loc = re.search(r"\{closure@([^}]*)\}", clo.ty).group(1)
        fname = I.closure_fns.get(loc)
        if fname is None:
            raise Unsupported("closure %s has no MIR body" % loc)
        t = thr(st)
        tid = t["next"]
        t["next"] += 1
        mon(st)["spawned"] += 1
        t["clock"][tid] = tick(st)

        def start(I, st, fname=fname, clo=clo, tid=tid):
            t = thr(st)
            stack = [FrameS(I.get_fn(fname), {1: clo}, None, None)]
            t["stacks"][tid] = stack
            t["status"][tid] = "run"
            switch(st, tid)
        return mirint.After(Agg([tid], "JoinHandle"), start)
    add(r"(\w+::)*spawn::<.*>", spawn, "thread::spawn: a new thread of the scheduler, run at once until it ends or blocks")

    def join(I, st, a):
        t = thr(st)
        tid = a[0].f[0]
        if t["status"].get(tid) == "done":
            mine = t["clock"].setdefault(t["cur"], {})
            for k_, v_ in t["clock"].get(tid, {}).items():
                if mine.get(k_, 0) < v_:
                    mine[k_] = v_
            return Enum("Result", 0, [t["result"][tid]])
        t["wait"][t["cur"]] = ("join", tid)
        return mirint.BLOCK
    add(r"(\w+::)*JoinHandle::<.*>::join", join, "JoinHandle::join blocks until that thread has ended")

    add(r"std::mem::forget::<.*>", lambda I, st, a: UNIT, "mem::forget: the value is never dropped")

    def mem_drop(I, st, a):
        drop_walk(I, st, a[0])
        return UNIT
    add(r"(std::mem::)?drop::<.*>", mem_drop, "mem::drop")

    add_generic_models(add)

    # --- the per-thread work, with symbolic outcomes
    def leaf_model(I, st, a):
        blob = a[1]
        paths = [text_of(p) for p in blob.f[0].items]
        m = mon(st)
        if len(paths) != 1 or not paths[0].startswith("leaf"):
            viol(st, "C09", "a source-file worker was handed something other than exactly one leaf path")
            return Enum("Result", 1, [Enum("WorkError", I.enum_variants("WorkError").index("Weird"), [])])
        j = int(paths[0][4:])
        missing = I.decide(st, z3.Bool("leaf_missing_%d" % j))      # (every decision before any recorded effect: a fork re-runs the model)
        thr(st)["did"][thr(st)["cur"]] = ("leaf", j)
        m["leaf_entered"][j] = m["leaf_entered"].get(j, 0) + 1
        if missing:
            m["fail"][("leaf", j)] = True
            return Enum("Result", 1, [Enum("WorkError", I.enum_variants("WorkError").index("FileNotFound"), [lit(paths[0])])])
        m["leaf_ok"].add(j)
        wo = I.enum_variants("WorkOption")
        return Enum("Result", 0, [Agg([Agg([[Tk(("leaf", j))]], "FileStateVec"), blob, Enum("WorkOption", wo.index("SourceOnly"), []), none()], "WorkResult")])
    add(r"handle_source_only_node::<SystemType>", leaf_model, "handle_source_only_node: present (hash) or missing, chosen by the solver")

    def node_model(I, st, a):
        info, ext = a[0], a[1]
        m = mon(st)
        paths = [text_of(p) for p in info.f[1].f[0].items]
        mm = re.fullmatch(r"t(\d+)_0", paths[0]) if paths else None
        if not mm or int(mm.group(1)) >= len(plan.nodes):
            viol(st, "C09", "a rule worker was handed targets that are no rule's")
            return Enum("Result", 1, [Enum("WorkError", I.enum_variants("WorkError").index("Weird"), [])])
        k = int(mm.group(1))
        nt, srcs = plan.nodes[k]
        fails = I.decide(st, z3.Bool("rule_fails_%d" % k))          # (every decision before any recorded effect: a fork re-runs the model)
        built, res = False, []
        if not fails:
            built = I.decide(st, z3.Bool("rule_built_%d" % k))
            if not built:
                for s in range(nt):
                    r = z3.Int("resolution_%d_%d" % (k, s))
                    res.append("AlreadyCorrect" if I.decide(st, r == 0) else ("Recovered" if I.decide(st, r == 1) else "Downloaded"))
        m["node_entered"][k] = m["node_entered"].get(k, 0) + 1
        t = thr(st)
        t["did"][t["cur"]] = ("node", k)
        got = list(t["recvd"].get(t["cur"], []))
        for x in srcs:
            want = ("leaf", x[1]) if x[0] == "L" else ("node", x[1])
            if want in got:
                got.remove(want)
            else:
                viol(st, "C03", "a rule's work started without the rule having received the packet of every producer of its sources (nothing orders it after them)")
        if paths != [plan.target(k, s) for s in range(nt)]:
            viol(st, "C09", "a rule thread was handed targets other than exactly its own, in order")
        # RuleExt { sources_ticket, command, rule_history, cache, downloader_cache_opt, downloader_rule_history_opt }
        sources_ticket, command, rule_history = ext.f[0], ext.f[1], ext.f[2]
        if [text_of(c) for c in command.items] != ["cmd%d" % k]:
            viol(st, "C01", "a rule was handled with another rule's command")
        if not (isinstance(rule_history, Tk) and rule_history.v == ("rulehistory", k)):
            viol(st, "C01", "a rule was handled with another rule's history")
        expect = []
        for x in srcs:
            if x[0] == "L":
                if x[1] not in m["leaf_ok"]:
                    viol(st, "C03", "a rule was handled before a source file it needs had been examined successfully")
                expect.append(("leaf", x[1]))
            else:
                if x[1] not in m["node_ok"]:
                    viol(st, "C03", "a rule was handled before every rule producing its sources had finished successfully")
                expect.append(("t", x[1], x[2]))
        if not (isinstance(sources_ticket, Tk) and sources_ticket.v == ("hash", tuple(expect))):
            viol(st, "C01", "the sources hash given to a rule is not the hash of its sources' hashes (right target of each producer, plan order)")
        if fails:
            m["fail"][("node", k)] = True
            return Enum("Result", 1, [Enum("WorkError", I.enum_variants("WorkError").index("CommandExecutedButErrored"), [])])
        m["node_ok"].add(k)
        wo = I.enum_variants("WorkOption")
        fr = I.enum_variants("FileResolution")
        if built:
            m["built"][k] = True
            option = Enum("WorkOption", wo.index("CommandExecuted"), [Agg([lit(""), lit(""), some(0), True], "CommandLineOutput")])
        else:
            m["built"][k] = False
            m["res"][k] = res
            option = Enum("WorkOption", wo.index("Resolutions"), [VecV([Enum("FileResolution", fr.index(x), []) for x in res])])
        fsv = Agg([[Tk(("t", k, s)) for s in range(nt)]], "FileStateVec")
        return Enum("Result", 0, [Agg([fsv, info.f[1], option, some(rule_history)], "WorkResult")])
    add(r"handle_rule_node::<SystemType>", node_model, "handle_rule_node: fails / built / per-target resolutions chosen by the solver; checks what it is handed")

    def clean_model(I, st, a):
        blob = a[0]
        m = mon(st)
        paths = [text_of(p) for p in blob.f[0].items]
        mm = re.fullmatch(r"t(\d+)_0", paths[0]) if paths else None
        if not mm or int(mm.group(1)) >= len(plan.nodes):
            viol(st, "C09", "clean: a worker was handed targets that are no rule's")
            return Enum("Result", 1, [Enum("WorkError", I.enum_variants("WorkError").index("Weird"), [])])
        k = int(mm.group(1))
        fails = I.decide(st, z3.Bool("clean_fails_%d" % k))
        thr(st)["did"][thr(st)["cur"]] = ("clean", k)
        m["node_entered"][k] = m["node_entered"].get(k, 0) + 1
        if paths != [plan.target(k, s) for s in range(plan.nodes[k][0])]:
            viol(st, "C09", "clean: a rule's worker was handed targets other than exactly its own")
        if fails:
            m["fail"][("node", k)] = True
            return Enum("Result", 1, [Enum("WorkError", I.enum_variants("WorkError").index("Weird"), [])])
        m["node_ok"].add(k)
        return Enum("Result", 0, [UNIT])
    add(r"clean_targets::<SystemType>", clean_model, "clean_targets: succeeds or fails, chosen by the solver; checks what it is handed")

    # --- printer
    def banner(I, st, a):
        mon(st)["banners"].append((text_of(a[1]).strip(), text_of(a[3])))
        return UNIT
    add(r"<PrinterType as Printer>::print_single_banner_line", banner, "Printer::print_single_banner_line (recorded)")
    add(r"<PrinterType as Printer>::print", lambda I, st, a: UNIT, "Printer::print")

    def perr(I, st, a):
        mon(st)["errors_printed"] += 1
        return UNIT
    add(r"<PrinterType as Printer>::error", perr, "Printer::error (recorded)")
    return extra + M, used


def post_handlers():
    def collect(I, st, post, rv):
        post["out"].append(rv)
        if post["rest"]:
            nxt = post["rest"].pop(0)
            return CallMir(post["fname"], [Ref(post["cell"], 0), nxt], post)
        return VecV(post["out"])
    return {"collect": collect}


# --------------------------------------------------------------------------
# judging a finished path
# --------------------------------------------------------------------------

def judge_clean(I, st, plan, failures, model_of):
    m = mon(st)
    res = st.result
    be = I.enum_variants("BuildError")

    def fail(tag, what):
        failures.append({"tag": tag, "what": "clean: " + what, "plan": plan.describe(), "outcomes": outcomes(st, model_of), "result": sort_engine.short(res)[:300], "program": "clean"})
    if m.get("deadlock"):
        fail("C05", "deadlock: " + "; ".join(m["deadlock"]))
        return
    for tag, what in m["viol"]:
        fail(tag, what)
    n = len(plan.nodes)
    for k in range(n):
        if m["node_entered"].get(k, 0) < 1:
            fail("C10", "the targets of a rule in scope were not cleaned")
    if res.idx == 1 and be[res.f[0].idx] != "WorkErrors":
        fail("C05", "ended with an internal error (%s)" % be[res.f[0].idx])


def judge(I, st, plan, failures, model_of):
    m = mon(st)
    res = st.result
    be = I.enum_variants("BuildError")

    def fail(tag, what):
        failures.append({"tag": tag, "what": what, "plan": plan.describe(), "outcomes": outcomes(st, model_of), "result": sort_engine.short(res)[:300]})
    if ("hist",) in [k[:1] for k in m["fail"]]:
        # read_rule_history failed for some rule: build() gives up with that error; only C05's clauses are judged
        if not (res.idx == 1 and be[res.f[0].idx] == "HistoryError"):
            fail("C05", "an unreadable rule history did not end the build with a HistoryError")
        return
    if m.get("deadlock"):
        fail("C05", "deadlock: " + "; ".join(m["deadlock"]))
        if m["fail"]:
            failures[-1]["also"] = ["C04"]
        return
    for tag, what in m["viol"]:
        fail(tag, what)
        if "sources hash given to a rule" in what:
            failures[-1]["also"] = ["C02"]      # an unstable sources hash shows as an unnecessary execution on some history
    n, nl = len(plan.nodes), plan.nleaves
    nfailed = 0
    for j in range(nl):
        if ("leaf", j) in m["fail"]:
            nfailed += 1
    for k, (nt, srcs) in enumerate(plan.nodes):
        producers_ok = all((x[1] in m["leaf_ok"]) if x[0] == "L" else (x[1] in m["node_ok"]) for x in srcs)
        entered = m["node_entered"].get(k, 0)
        if entered > 1:
            fail("C02", "a rule was handled more than once in one build")
        if producers_ok and entered != 1:
            fail("C04", "a rule none of whose producers failed was not brought up to date")
            failures[-1]["also"] = ["C17"]
        if not producers_ok and entered != 0:
            fail("C04", "a rule ran although one of its producers failed or was cancelled")
        if ("node", k) in m["fail"]:
            nfailed += 1
        if k in m["node_ok"] and m["hist_written"].get(k, 0) < 1:
            fail("C02", "the history of a finished rule was not written back (the next build would run its command again)")
        if k not in m["node_ok"] and m["hist_written"].get(k, 0) != 0:
            fail("C04", "history was written back for a rule that failed or did not run")
            failures[-1]["also"] = ["C17"]
        for s in range(nt):
            mine = [b for b in m["banners"] if b[1] == plan.target(k, s)]
            if k in m["node_ok"]:
                if len(mine) != 1:
                    fail("C20", "not exactly one status line for a target of a finished rule")
                else:
                    want = "Built" if m["built"].get(k) else {"AlreadyCorrect": "Up-to-date", "Recovered": "Recovered", "Downloaded": "Downloaded"}[m["res"][k][s]]
                    if mine[0][0] != want:
                        fail("C20", "the status shown for a target is not what happened to it")
                        failures[-1]["detail"] = "shown %s, happened %s" % (mine[0][0], want)
            elif mine:
                fail("C20", "a status line was printed for a target of a failed or cancelled rule")
    if res.idx == 0:
        if nfailed != 0:
            fail("C04", "the build reported success although a rule failed or a source file is missing")
    else:
        kind = be[res.f[0].idx]
        if kind != "WorkErrors":
            fail("C05", "build ended with an internal error (%s) instead of success or the list of failed rules" % kind)
        else:
            if nfailed == 0:
                fail("C04", "the build reported failure although nothing failed")
            if len(res.f[0].f[0].items) != nfailed:
                fail("C04", "not exactly one error per failed rule or missing source file (%d reported, %d failed)" % (len(res.f[0].f[0].items), nfailed))


def outcomes(st, model_of):
    m = mon(st)
    return {"missing_leaves": sorted(k[1] for k in m["fail"] if k[0] == "leaf"), "failing_rules": sorted(k[1] for k in m["fail"] if k[0] == "node"),
            "unreadable_history": sorted(k[1] for k in m["fail"] if k[0] == "hist"),
            "built": {str(k): v for k, v in m["built"].items()}, "resolutions": {str(k): v for k, v in m["res"].items()}}


# --------------------------------------------------------------------------
# driver
# --------------------------------------------------------------------------

SRC_FILES = ["build.rs", "work.rs", "blob.rs", "packet.rs", "sort.rs", "system/mod.rs", "history.rs", "directory.rs", "current.rs"]


def closure_index(mir):
    idx = {}
    for m in re.finditer(r"^fn (.+?)\(_1: (?:&mut |&)?\{closure@([^}]*)\}", mir, re.M):
        idx[m.group(2)] = m.group(1)
    return idx


def run_plan(mir, src_texts, module_sources, plan, opts, budget_s, stats, failures, max_fail=3, program="build"):
    goal = opts.get("goal")
    opts = dict(opts)
    opts["program"] = program
    M, used = build_models(plan, opts)
    I = Interp(mir, src_texts, M, [(re.compile(r"ChannelPack::new"), find_fn(mir, r"build::<impl at [^>]*>::new", "NodePack")),
                                   (re.compile(r"wait_for_sources_ticket"), "wait_for_sources_ticket")])
    I.modules = ["packet", "build"]
    I.module_sources = module_sources
    I.closure_fns = closure_index(mir)
    I.post_handlers = post_handlers()
    I.drop_hook = drop_walk
    I.thread_hook = thread_hook
    I.block_hook = block_hook
    I.max_steps = 400000
    fn = I.get_fn(program)

    def model_of(st):
        s = z3.Solver()
        for c in st.pc:
            s.add(c)
        s.check()
        return s.model()

    def make_state():
        st = State()
        st.local_fail = []
        g = some(lit(goal)) if goal else none()
        params = Agg([lit(".ruler"), VecV([lit("build.rules")]), none(), g], "BuildParams")
        printer_cell = [Tk(("printer",))]
        if program == "build":
            st.frames.append(FrameS(fn, {1: Tk(("system",)), 2: Ref(printer_cell, 0), 3: params}, None, None))
        else:
            st.frames.append(FrameS(fn, {1: Tk(("system",)), 2: lit(".ruler"), 3: VecV([lit("build.rules")]), 4: g}, None, None))
        return st

    def finish(I_, st):
        for ch in mon(st)["chan"]:
            if ch["failed"] and not ch["r_dropped"]:
                raise Infeasible()      # a send was assumed to find a receiver gone that was never dropped
        for n_ in mon(st)["notes"]:
            stats.setdefault("notes", set()).add(n_)
        local = []
        (judge if program == "build" else judge_clean)(I_, st, plan, local, model_of)
        for f in local:
            if len(failures) < max_fail and not any(g["what"] == f["what"] and g["plan"] == f["plan"] for g in failures):
                failures.append(f)
    try:
        paths, panics = I.explore(make_state, finish, budget_s=budget_s)
    finally:
        stats["queries"] += I.queries
        stats["solver_s"] += I.solver_s
        stats["forks"] += I.forks
        stats["models"] |= used
    stats["paths"] += paths
    for pc, msg in panics:
        if len(failures) < max_fail:
            failures.append({"tag": "C05", "what": program + "() panics: " + msg, "program": program,
                             "also": ["C04"] if any(re.fullmatch(r"(leaf_missing|rule_fails)_\d+", str(c_)) for c_ in pc) else [], "plan": plan.describe(),
                             "outcomes": {"path_condition": [str(c) for c in pc][:12],
                                          "missing_leaves": sorted(int(m_.group(1)) for m_ in (re.fullmatch(r"leaf_missing_(\d+)", str(c)) for c in pc) if m_),
                                          "failing_rules": sorted(int(m_.group(1)) for m_ in (re.fullmatch(r"rule_fails_(\d+)", str(c)) for c in pc) if m_)}, "result": "panic"})


def find_fn(mir, name_rx, param_substr):
    for m in re.finditer(r"^fn (%s)\((.*)$" % name_rx, mir, re.M):
        if param_substr in m.group(2):
            return m.group(1)
    raise Unsupported("function %s(..%s..) not found in the MIR dump" % (name_rx, param_substr))


def plans_for(tier):
    P = []
    L, Pr = (lambda j: ("L", j)), (lambda i, s: ("P", i, s))
    # single rule
    P.append(Plan([(1, [L(0)])], 1))
    P.append(Plan([(2, [])], 0))
    P.append(Plan([(1, [L(0), L(1)])], 2))
    # two rules
    for s in (0, 1):
        P.append(Plan([(2, [L(0)]), (1, [Pr(0, s)])], 1))                # chain through either target of a two-target rule
    P.append(Plan([(1, [L(0)]), (1, [L(0)])], 1))                        # two independent rules sharing a leaf (fan-out of a leaf)
    P.append(Plan([(1, []), (2, [Pr(0, 0), L(0)])], 1))
    P.append(Plan([(1, [L(0)]), (1, [L(1), Pr(0, 0)])], 2))               # a leaf listed before a rule's target among the sources
    P.append(Plan([(1, [L(0)]), (1, [L(0)]), (1, [Pr(0, 0), Pr(1, 0)])], 1))   # fan-in of two rules that can fail independently
    # three rules
    for s, s2 in ((0, 1), (1, 0), (1, 1)):
        P.append(Plan([(2, [L(0)]), (1, [Pr(0, s), L(1)]), (1, [Pr(0, s2), Pr(1, 0)])], 2))   # diamond with leaves
    P.append(Plan([(1, [L(0)]), (2, [L(1)]), (1, [Pr(0, 0), Pr(1, 1)])], 2))                    # fan-in of independent rules
    P.append(Plan([(1, [L(0)]), (1, [Pr(0, 0)]), (1, [Pr(1, 0)])], 1))                          # chain of three
    P.append(Plan([(1, [L(0)]), (1, [Pr(0, 0)]), (1, [Pr(0, 0)])], 1))                          # fan-out of a rule
    P.append(Plan([(1, []), (1, []), (1, [])], 0))                                              # disconnected
    if tier == "thorough":
        def cand(k):
            return [L(0), L(1)] + [Pr(i, s) for i in range(k) for s in (0, 1)]

        def srcs_opts(k):       # ordered source lists: the order in which a rule listens matters
            return [[]] + [[x] for x in cand(k)] + [[x, y] for x, y in itertools.permutations(cand(k), 2)]
        nts = (2, 2, 1)
        for s0 in srcs_opts(0):
            for s1 in srcs_opts(1):
                for s2 in srcs_opts(2):
                    allsrc = s0 + s1 + s2
                    if len(allsrc) > 3 or not all(x[0] == "L" or x[2] < nts[x[1]] for x in allsrc):
                        continue
                    used = [x[1] for x in allsrc if x[0] == "L"]
                    if used and used[0] != 0:
                        continue        # (the two leaves are interchangeable)
                    P.append(Plan([(nts[0], s0), (nts[1], s1), (nts[2], s2)], 2 if 1 in used else (1 if used else 0)))
        P.append(Plan([(1, [L(0)]), (1, [Pr(0, 0)]), (1, [Pr(1, 0)]), (2, [Pr(2, 0), Pr(0, 0)])], 1))
        P.append(Plan([(2, [L(0)]), (1, [L(1), Pr(0, 1)]), (1, [Pr(0, 0), L(1)]), (1, [Pr(1, 0), Pr(2, 0)])], 2))
    return P


def _worker(args):
    mir_path, pi, tier, budget = args
    mir = open(mir_path).read()
    src_texts = [open(os.path.join("/repo/src", f), encoding="utf-8").read() for f in SRC_FILES]
    module_sources = {f[:-3]: open(os.path.join(VERIF, "replay", "gen", f), encoding="utf-8").read() for f in ("build.rs", "packet.rs")}
    plan = plans_for(tier)[pi]
    stats = {"queries": 0, "solver_s": 0.0, "forks": 0, "paths": 0, "models": set(), "plans": 0}
    failures, note = [], None
    t0 = time.time()
    try:
        run_plan(mir, src_texts, module_sources, plan, {"history_errors": tier == "thorough", "goal": "the_goal"}, budget, stats, failures)
        if len(plan.nodes) <= 2 or tier == "thorough":
            run_plan(mir, src_texts, module_sources, plan, {"history_errors": False}, budget, stats, failures)
        run_plan(mir, src_texts, module_sources, plan, {}, budget, stats, failures, program="clean")
        run_plan(mir, src_texts, module_sources, plan, {"goal": "the_goal"}, budget, stats, failures, program="clean")
        stats["plans"] = 1
    except Unsupported as e:
        note = "construct outside the interpreter's closed list: %s" % e
    except Budget as e:
        note = "plan %s: %s" % (json.dumps(plan.describe()), e)
    stats["models"] = sorted(stats["models"])
    stats["notes"] = sorted(stats.get("notes", []))
    return {"plan": plan.describe(), "stats": stats, "failures": failures, "note": note, "wall": time.time() - t0}


def run(tier):
    import multiprocessing
    import mir_engine
    t0 = time.time()
    mir, err, meta, mir_s = mir_engine.dump_mir()
    stats = {"queries": 0, "solver_s": 0.0, "forks": 0, "paths": 0, "models": set(), "plans": 0}
    failures, inconclusive, samples = [], [], []
    if mir is None:
        return failures, ["MIR dump failed: " + err[-400:]], stats, samples, mir_s, time.time() - t0
    mir_path = os.path.join(WORK, "mir_dump.txt")
    nplans = len(plans_for(tier))
    tasks = [(mir_path, i, tier, 900 if tier == "quick" else 1800) for i in range(nplans)]
    with multiprocessing.Pool(int(os.environ.get("VERIF_JOBS_M", "14"))) as pool:
        for r in pool.imap_unordered(_worker, tasks):
            for k in ("queries", "solver_s", "forks", "paths", "plans"):
                stats[k] += r["stats"][k]
            stats["models"] |= set(r["stats"]["models"])
            stats.setdefault("notes", set()).update(r["stats"].get("notes", []))
            for f in r["failures"]:
                if len(failures) < 8 and not any(g["what"] == f["what"] for g in failures):
                    failures.append(f)
            if r["note"] and r["note"] not in inconclusive:
                inconclusive.append(r["note"])
            if len(samples) < 8:
                samples.append({"plan": r["plan"], "paths": r["stats"]["paths"], "wall_s": round(r["wall"], 1)})
    if stats["plans"] < nplans and not inconclusive:
        inconclusive.append("only %d of %d plans completed" % (stats["plans"], nplans))
    return failures, inconclusive[:6], stats, samples, mir_s, time.time() - t0


# --------------------------------------------------------------------------
# per-property check: cached exploration, native confirmation, evidence
# --------------------------------------------------------------------------

CLAUSES = {
    "C01": "hand-off: the sources hash given to handle_rule_node is the hash of the hashes of exactly the rule's sources, in plan order, taking the declared target (sub-index) of each producing rule; each rule is handled with its own command, history and targets",
    "C02": "a rule is handled at most once per build; the history a finished rule returns is written back under its own identity",
    "C03": "handle_rule_node is entered only after the thread has received a packet from every producer of its sources (happens-before on every schedule) and every producer finished successfully",
    "C04": "a failing rule / missing leaf cancels exactly its transitive dependents, every other rule is still handled, the result carries exactly one error per failure, nothing is written back for failed or cancelled rules",
    "C05": "build() and clean(): no deadlock (some thread can always move until all have ended), no panic, every edge carries exactly one packet, no receiver is dropped before its packet arrived, the result is Ok or WorkErrors",
    "C09": "every worker (build and clean) is handed exactly its own targets (rule) or its one leaf",
    "C10": "clean() starts a worker on the targets of every rule of the plan",
    "C17": "build-level half: a rule whose work fails (a contradiction is one such failure) has nothing written back to its history, and every rule that does not depend on it is still handled",
    "C20": "one status line per target of every finished rule, saying Built iff the rule's command ran, else the target's own resolution; none for failed or cancelled rules",
}


def engine_digest(tier):
    import hashlib
    h = hashlib.sha256()
    for f in SRC_FILES:
        h.update(open(os.path.join("/repo/src", f), "rb").read())
    for f in ("proto_engine.py", "mirint.py", "sort_engine.py"):
        h.update(open(os.path.join(VERIF, "lib", f), "rb").read())
    h.update(tier.encode())
    return h.hexdigest()[:24]


def explore_cached(tier):
    """the exploration is the same for every property that uses it: one run per state of the sources"""
    os.makedirs(WORK, exist_ok=True)
    cache = os.path.join(WORK, "proto_cache_%s.json" % tier)
    dig = engine_digest(tier)
    if os.environ.get("VERIF_NO_CACHE") != "1" and os.path.exists(cache):
        try:
            c = json.load(open(cache))
            if c.get("digest") == dig:
                c["cached"] = True
                return c
        except Exception:
            pass
    failures, inconclusive, stats, samples, mir_s, wall = run(tier)
    stats["models"] = sorted(stats["models"])
    stats["notes"] = sorted(stats.get("notes", []))
    t1 = time.time()
    nat_runs, nat_bad = validate_natively(tier)
    stats["native_validation_builds"] = nat_runs
    stats["native_validation_s"] = round(time.time() - t1, 1)
    stats["native_disagreements"] = nat_bad[:5]
    wall += time.time() - t1
    c = {"digest": dig, "failures": failures, "inconclusive": inconclusive, "stats": stats, "samples": samples, "mir_s": mir_s, "wall": wall, "cached": False}
    if not inconclusive and not nat_bad:        # (a run cut short by a budget, or one that disagrees with the native runs, is never reused)
        json.dump(c, open(cache, "w"), indent=1)
    return c


def enrich(plan):
    """the same plan with extra leaves, so that every target of a multi-target rule has a source of its own
    (the native commands make target s from the rule's sources number s, s+nt, ...): lets a wrong sub-index show
    as a stale file"""
    leaves = list(plan["leaves"])
    rules = []
    for r in plan["rules"]:
        srcs = list(r["sources"])
        nt = len(r["targets"])
        while nt > 1 and (len(srcs) < nt or len(srcs) % nt):
            leaves.append("leaf%d" % len(leaves))
            srcs.append(leaves[-1])
        rules.append({"targets": r["targets"], "sources": srcs})
    return {"leaves": leaves, "rules": rules}


def pad(plan):
    """a rules file cannot express a rule without sources (the bundle parser refuses an empty section), so for the
    native run every such rule gets a leaf of its own"""
    leaves = list(plan["leaves"])
    rules = []
    for r in plan["rules"]:
        srcs = list(r["sources"])
        if not srcs:
            leaves.append("leaf%d" % len(leaves))
            srcs.append(leaves[-1])
        rules.append({"targets": r["targets"], "sources": srcs})
    return {"leaves": leaves, "rules": rules}


def name_lines(plan):
    """file names whose byte order reproduces the plan's order of every rule's sources and targets (the real sorter
    orders both by name); none if the plan's orders cannot all be realised at once"""
    ents = ["L%d" % j for j in range(len(plan["leaves"]))] + ["T%d.%d" % (k, s_) for k, r in enumerate(plan["rules"]) for s_ in range(len(r["targets"]))]
    key = {}
    for j, n_ in enumerate(plan["leaves"]):
        key[n_] = "L%d" % j
    for k, r in enumerate(plan["rules"]):
        for s_, t in enumerate(r["targets"]):
            key[t] = "T%d.%d" % (k, s_)
    less = set()
    for r in plan["rules"]:
        for seq in (r["targets"], r["sources"]):
            for a_, b_ in zip(seq, seq[1:]):
                less.add((key[a_], key[b_]))
    order, left = [], list(ents)
    while left:
        free = [e for e in left if not any((x, e) in less for x in left if x != e)]
        if not free:
            return []
        order.append(free[0])
        left.remove(free[0])
    orig = {v: k_ for k_, v in key.items()}
    return ["name %s n%02d_%s" % (e, i, orig[e]) for i, e in enumerate(order)]


def case_text(f, policies, enriched=False):
    plan = pad(enrich(f["plan"]) if enriched else f["plan"])
    tindex = {}
    for k, r in enumerate(plan["rules"]):
        for s_, t in enumerate(r["targets"]):
            tindex[t] = (k, s_)
    lines = ["leaves %d" % len(plan["leaves"])]
    for r in plan["rules"]:
        srcs = []
        for x in r["sources"]:
            srcs.append("L%d" % plan["leaves"].index(x) if x in plan["leaves"] else "P%d.%d" % tindex[x])
        lines.append("rule %d %s" % (len(r["targets"]), " ".join(srcs)))
    o = f.get("outcomes", {})
    if o.get("missing_leaves"):
        lines.append("missing " + " ".join(str(x) for x in o["missing_leaves"]))
    if o.get("failing_rules") and f.get("program", "build") == "build":
        lines.append("failing " + " ".join(str(x) for x in o["failing_rules"]))
    lines += name_lines(plan)
    lines.append("program " + f.get("program", "build"))
    if f["tag"] == "C09":
        lines.append("scope 1")
    lines.append("policies %d" % policies)
    return "\n".join(lines) + "\n"


def native_replay(f, k):
    """the REAL build()/clean() on ruler's FakeSystem, on the plan and the failure placement of the counterexample,
    under the baton scheduler with seeded policies -> (reproduced, text)"""
    import subprocess
    gen.generate(os.path.join(VERIF, "replay"))
    total = 0
    for enriched in (False, True):
        text = case_text(f, 64, enriched)
        if enriched and text == case_text(f, 64, False):
            break
        path = os.path.join(WORK, "proto_case_%d.txt" % k)
        open(path, "w").write(text)
        env = dict(os.environ)
        env["CARGO_NET_OFFLINE"] = "true"
        env["VERIF_PROTO_CASE_TXT"] = path
        try:
            p = subprocess.run(["cargo", "test", "--offline", "--quiet", "proto_case_from_env", "--", "--nocapture", "--test-threads", "1"],
                               cwd=os.path.join(VERIF, "replay"), env=env, capture_output=True, text=True, timeout=1500)
        except subprocess.TimeoutExpired:
            return False, "native run timed out (a hang the scheduler did not classify)"
        m = re.search(r"PROTO-RESULT (\{.*\})", p.stdout)
        if not m:
            return False, "native run gave no result: " + (p.stdout + p.stderr)[-500:]
        nat = json.loads(m.group(1))
        total += nat["runs"]
        if nat["violations"]:
            v = nat["violations"][0]
            return True, "%s (scheduler policy %d; %d native builds run): [%s] %s" % (text.replace("\n", "; "), v["policy"], total, v["property"], v["what"])
    return False, "%d native builds under 64 scheduler policies showed nothing" % total


def validate_natively(tier):
    """the plans of the tier, natively: failure-free, every single and every pairwise placement of a missing leaf /
    failing rule, under 3 scheduler policies (2 for the pairs), full history for the failure-free one.
    -> (native builds run, [disagreements])"""
    import subprocess
    plans = plans_for("quick")
    cases = []
    for p_ in plans:
        d = p_.describe()
        sites = [("missing", j) for j in range(p_.nleaves)] + [("failing", k) for k in range(len(p_.nodes))]
        placements = [[]] + [[x] for x in sites] + [[x, y] for i_, x in enumerate(sites) for y in sites[i_ + 1:]]
        if tier == "quick":
            placements = placements[:1 + len(sites)]
        for pl in placements:
            f = {"plan": d, "tag": "-", "outcomes": {"missing_leaves": [x[1] for x in pl if x[0] == "missing"], "failing_rules": [x[1] for x in pl if x[0] == "failing"]}}
            cases.append((case_text(f, 3 if len(pl) < 2 else 2), d, pl))
        cases.append((case_text({"plan": d, "tag": "-", "program": "clean", "outcomes": {}}, 2), d, "clean"))
        cases.append((case_text({"plan": d, "tag": "C09", "outcomes": {}}, 2), d, "scope"))
    path = os.path.join(WORK, "proto_validate.txt")
    open(path, "w").write("\n---\n".join(c_[0] for c_ in cases))
    gen.generate(os.path.join(VERIF, "replay"))
    env = dict(os.environ)
    env["CARGO_NET_OFFLINE"] = "true"
    env["VERIF_PROTO_CASE_TXT"] = path
    try:
        p = subprocess.run(["cargo", "test", "--offline", "--quiet", "proto_case_from_env", "--", "--nocapture", "--test-threads", "1"],
                           cwd=os.path.join(VERIF, "replay"), env=env, capture_output=True, text=True, timeout=2400)
    except subprocess.TimeoutExpired:
        return 0, ["native validation timed out"]
    res = re.findall(r"PROTO-RESULT (\{.*\})", p.stdout)
    if len(res) != len(cases):
        return 0, ["native validation gave %d results for %d cases: %s" % (len(res), len(cases), (p.stdout + p.stderr)[-400:])]
    runs, bad = 0, []
    for r, (txt, d, pl) in zip(res, cases):
        r = json.loads(r)
        runs += r["runs"]
        for v in r["violations"]:
            bad.append({"plan": d, "placement": pl, "native": v})
    return runs, bad


def check(pid, tier, seed):
    import findings
    c = explore_cached(tier)
    stats = c["stats"]
    known = findings.load()
    lines, reported, known_hits = [], [], []
    inconclusive = list(c["inconclusive"])
    for d_ in stats.get("native_disagreements", []):
        inconclusive.append("native validation: the real build() misbehaves where the executor found nothing (outside its models, or a model is wrong): %s" % json.dumps(d_)[:400])
    exit_code = 0
    replayed = 0
    os.makedirs(os.path.join(VERIF, "replays"), exist_ok=True)
    seen = set()
    for k, f in enumerate([f for f in c["failures"] if f["tag"] == pid or pid in f.get("also", [])]):
        role = "protocol: " + f["what"]
        if role in seen:
            continue
        seen.add(role)
        replayed += 1
        rep, text = native_replay(f, k)
        path = os.path.join(VERIF, "replays", "%s_P_%d.json" % (pid, k))
        json.dump({"property": pid, "engine": "M/protocol", "what": f["what"], "plan": f["plan"], "outcomes": f.get("outcomes"), "symbolic_result": f.get("result"),
                   "native": text, "reproduced": rep, "role": role}, open(path, "w"), indent=1)
        if rep:
            kf = findings.match(known, pid, {"role": role})
            if kf:
                known_hits.append(kf)
                lines.append("KNOWN-FINDING: property=%s %s" % (pid, kf["what"]))
            else:
                lines.append("VIOLATION property=%s replay=%s" % (pid, path))
                reported.append({"what": f["what"], "native": text, "replay": path})
                exit_code = 1
        else:
            inconclusive.append("solver counterexample (%s) did not reproduce natively: %s" % (f["what"], text))
    if exit_code == 0 and inconclusive:
        exit_code = 2
    funcs = []
    for fn_ in ("build", "clean", "wait_for_sources_ticket", "new"):
        span = gen.function_span("build", fn_)
        funcs.append({"file": "src/build.rs", "fn": "ChannelPack::new" if fn_ == "new" else fn_ + (" (with both worker closures)" if fn_ == "build" else ""), "lines": list(span[:2]) if span else None, "sha": span[2] if span else None})
    for fn_ in ("from_ticket", "cancel", "get_ticket"):
        span = gen.function_span("packet", fn_)
        funcs.append({"file": "src/packet.rs", "fn": "Packet::" + fn_, "lines": list(span[:2]) if span else None, "sha": span[2] if span else None})
    nplans = len(plans_for(tier))
    evidence = {
        "property_id": pid, "tier": tier, "seed": seed, "level": "model_checking",
        "coverage": {
            "evaluations": stats["queries"] + stats["paths"],
            "distinct_nontrivial": stats["paths"],
            "rule": "one evaluation = one solver query (is this outcome of a worker possible under the path condition) or one completed path; distinct_nontrivial = completed paths of build()/clean(): each is one plan with one placement of missing leaves, failing rules, built / per-target resolution outcomes, on which the clauses below were evaluated",
            "clauses": CLAUSES.get(pid, ""),
            "samples": c["samples"],
            "states": stats["paths"], "transitions": stats["forks"], "traces_validated_against_impl": replayed + stats.get("native_validation_builds", 0),
            "native_validation": "%d native build()/clean() runs of the tier's plans (failure-free, single and pairwise failure placements, histories, goal scope) under the baton scheduler agree with the executor's verdict (%.0fs)" % (stats.get("native_validation_builds", 0), stats.get("native_validation_s", 0)),
            "protocol_notes": stats.get("notes", []),
            "exploration_wall_s": round(c["wall"], 1), "exploration_from_cache": bool(c.get("cached")),
            "shapes_explored": stats["plans"], "forks": stats["forks"],
            "functions_encoded": funcs,
            "encoding": "rustc nightly -Zunpretty=mir of the regenerated copy of /repo/src -> lib/mirint.py interpretation of build(), clean(), ChannelPack::new, both worker closures, wait_for_sources_ticket and Packet over per-thread frame stacks -> z3 %s decides every outcome fork; MIR dump %.1fs%s" % (z3.get_version_string(), c["mir_s"], "; exploration reused from this tier's cache (same sources)" if c.get("cached") else ""),
            "bounds": "%d plans: %s; every placement of missing leaves and failing rules in each, every built / Up-to-date / Recovered / Downloaded outcome per target%s" % (
                nplans, "1..3 rules with 1..2 targets, <= 2 leaves, chains, diamonds, fan-in, fan-out, disconnected" if tier == "quick" else "the quick plans, every 3-rule plan (2, 2, 1 targets) with <= 2 leaves and <= 3 edges in topological order with every order of each rule's sources, and two 4-rule plans (chain with shortcut, double diamond)", "; thorough also lets every read_rule_history fail" if tier == "thorough" else ""),
            "library_models": stats["models"],
            "solver_queries": stats["queries"], "solver_time_s": round(stats["solver_s"], 2),
            "counterexamples_replayed_natively": replayed,
            "known_findings_hit": [k_["id"] for k_ in known_hits],
            "inconclusive": inconclusive,
            "schedules": "one deterministic schedule per path (lowest runnable thread first) stands for all: threads are deterministic, channels single-writer single-reader with blocking reads and non-blocking writes, and the monitors (one packet per edge, no receiver dropped before its packet arrived) are exactly the conditions under which no thread can observe the schedule; a schedule-dependent defect shows as a monitor violation and is then searched natively under 64 seeded scheduler policies",
            "outside_the_claim": "plans with more than 3 (4) rules, more than 2 targets per rule, more than 2 leaves; the workers' bodies (handle_rule_node, handle_source_only_node, clean_targets: Kani step harnesses) and the sorter (C12's engine) are models here; threads interfering through the file system (C06); I/O errors of init / get_nodes / to_file",
            "exhaustive": False,
        },
        "assumptions": ["std::thread / std::sync::mpsc behave as documented (spawn, join, unbounded channel, send fails iff the receiver is gone, recv blocks until a packet or hang-up)",
                        "handle_rule_node / handle_source_only_node / clean_targets are replaced by models with solver-chosen outcomes that also assert what they are handed; their own behaviour is checked by the Kani step harnesses",
                        "get_nodes returns a plan in topological order (C12's check)", "rustc's MIR is what gets compiled"],
        "wall_s": round(c["wall"], 1),
        "violations": len(reported),
    }
    return exit_code, evidence, lines, inconclusive, stats


if __name__ == "__main__":
    pid = sys.argv[1] if len(sys.argv) > 1 else "C05"
    tier = sys.argv[2] if len(sys.argv) > 2 else "quick"
    seed = int(sys.argv[3]) if len(sys.argv) > 3 else 0
    code, ev, lines, inc, stats = check(pid, tier, seed)
    if "--json" in sys.argv:
        json.dump({"exit_code": code, "evidence": ev, "lines": lines, "inconclusive": inc,
                   "summary": [["protocol (%d plans, %d forks)" % (stats["plans"], stats["forks"]), stats["queries"], stats["paths"], round(stats["solver_s"], 1), [l for l in lines][:2]]]},
                  open(sys.argv[sys.argv.index("--json") + 1], "w"), indent=1)
    print("  M/protocol: plans=%d paths=%d forks=%d queries=%d solver=%.1fs" % (stats["plans"], stats["paths"], stats["forks"], stats["queries"], stats["solver_s"]))
    for i_ in inc:
        print("INCONCLUSIVE", i_)
    for l in lines:
        print(l)
    print("engine M/protocol %s %s: exit %d (%.0fs)" % (pid, tier, code, ev["wall_s"]))
    sys.exit(code)
