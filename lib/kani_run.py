"""Run Kani harnesses over the generated view of /repo's current sources, in
parallel worker target directories, and parse CBMC's verdicts.

Verdict per harness:
  pass          VERIFICATION SUCCESSFUL, every cover witness satisfied, unwinding assertions hold
  fail          some assertion FAILED (list of descriptions)
  vacuous       a kani::cover! witness is unsatisfiable/unreachable -> inconclusive
  inconclusive  timeout, out of memory, CBMC error, unwinding assertion failed, compile error
A timeout/OOM is NEVER reported as success.
"""
import hashlib
import json
import os
import re
import subprocess
import sys
import time
from concurrent.futures import ThreadPoolExecutor

VERIF = "/verif"
KANI_DIR = os.path.join(VERIF, "kani")
WORK = os.path.join(VERIF, "work")
NWORKERS = int(os.environ.get("VERIF_JOBS", "8"))
WORKER_BASE = int(os.environ.get("VERIF_WORKER_BASE", "0"))     # dev only: run beside another driver without sharing a target dir

# Pointer-validity checks are switched off: ruler is safe Rust and the properties
# are functional; they were ~85% of CBMC's per-property queries (each a separate
# incremental SAT call on a multi-million-variable formula).  Panic, overflow,
# bounds and unwinding checks stay on.
BASE_ARGS = ["-Z", "stubbing", "-Z", "unstable-options", "--no-memory-safety-checks", "--no-assertion-reach-checks"]
CBMC_ARGS = ["--cbmc-args", "--unwindset", "memcmp.0:34"]


# which of ruler's modules a harness kind can reach (everything it calls lives there); an edit to
# another module cannot change its verdict, so it need not invalidate the cached one
KIND_MODULES = {
    "step":     ["blob", "cache", "work", "history", "current", "ticket", "packet", "system/mod", "system/util"],
    "glue":     ["blob", "cache", "work", "history", "current", "ticket", "packet", "system/mod", "system/util"],
    "coarse":   ["blob", "cache", "work", "history", "current", "ticket", "packet", "system/mod", "system/util"],
    "torn":     ["history", "current", "blob", "ticket", "system/mod", "system/util"],
    "identity": ["rule", "ticket", "bundle"],
    "sort":     ["sort", "rule", "ticket", "bundle"],
}


def sources_digest(part=None, kind=None):
    """Hash of everything a harness verdict depends on: /repo's sources as
    read by the generator, the harness crate's own modules, and the harness
    text -- the base harness files (harness/<module>.rs, which also hold shared
    helpers) plus, for a harness living in a part file harness/<module>__<x>.rs,
    that part only (parts never refer to each other)."""
    h = hashlib.sha256()
    import gen as _gen
    for m in KIND_MODULES.get(kind, _gen.MODULES):
        p = os.path.join(_gen.SRC, m + ".rs")
        h.update(p.encode())
        h.update(open(p, "rb").read())
    roots = [os.path.join(KANI_DIR, "src"), os.path.join(KANI_DIR, "crypto"),
             os.path.join(VERIF, "shared"), os.path.join(KANI_DIR, "Cargo.toml"),
             os.path.join(VERIF, "lib", "gen.py")]
    hd = os.path.join(KANI_DIR, "harness")
    for f in sorted(os.listdir(hd)):
        if "__" not in f or f == part:
            roots.append(os.path.join(hd, f))
    for r in roots:
        if os.path.isfile(r):
            h.update(r.encode())
            h.update(open(r, "rb").read())
            continue
        for d, _, fs in sorted(os.walk(r)):
            if "/target" in d:
                continue
            for f in sorted(fs):
                p = os.path.join(d, f)
                h.update(p.encode())
                h.update(open(p, "rb").read())
    return h.hexdigest()


CHECK_RX = re.compile(r"^Check (\d+): (\S+)\n\s+- Status: (\w+)\n\s+- Description: \"(.*)\"\n(?:\s+- Location: (.*)\n)?", re.M)


def parse_log(text):
    res = {"checks": 0, "property_checks": 0, "failed": [], "unreachable": 0, "covers": None, "covers_unsat": [],
           "symex_s": None, "solver_s": 0.0, "variables": None, "clauses": None, "verdict_line": None,
           "verification_time_s": None, "queries": 0, "stubs": []}
    for m in CHECK_RX.finditer(text):
        res["checks"] += 1
        num, name, status, desc, loc = m.groups()
        if ".cover." in name or desc.strip().strip('"').startswith("["):
            res["property_checks"] += 1
        if status == "FAILURE":
            res["failed"].append({"check": name, "description": desc.strip().strip('"'), "location": loc or ""})
        elif status == "UNREACHABLE" and ".cover." not in name:
            res["unreachable"] += 1
        if ".cover." in name:
            if status not in ("SATISFIED",):
                res["covers_unsat"].append({"check": name, "description": desc, "status": status})
    m = re.search(r"\*\* (\d+) of (\d+) cover properties satisfied", text)
    if m:
        res["covers"] = [int(m.group(1)), int(m.group(2))]
    m = re.search(r"Runtime Symex: ([\d.]+)s", text)
    if m:
        res["symex_s"] = float(m.group(1))
    for m in re.finditer(r"Runtime Solver: ([\d.e+-]+)s", text):
        res["solver_s"] += float(m.group(1))
        res["queries"] += 1
    m = re.search(r"(\d+) variables, (\d+) clauses", text)
    if m:
        res["variables"], res["clauses"] = int(m.group(1)), int(m.group(2))
    m = re.search(r"VERIFICATION:- (\w+)", text)
    if m:
        res["verdict_line"] = m.group(1)
    m = re.search(r"Verification Time: ([\d.]+)s", text)
    if m:
        res["verification_time_s"] = float(m.group(1))
    res["stubs"] = re.findall(r"- Stub: (.*)", text)
    res["errors"] = len(re.findall(r"- Status: ERROR", text))
    res["oom"] = "out of memory" in text or "std::bad_alloc" in text
    # "CBMC failed with status N" also trails ordinary FAILED verdicts; it only matters when CBMC gave no results
    res["cbmc_failed"] = "CBMC failed" in text and res["checks"] == 0
    res["compile_error"] = bool(re.search(r"^error(\[E\d+\])?:", text, re.M)) and res["verdict_line"] is None
    return res


def classify(res, timed_out):
    if timed_out:
        return "inconclusive", "timeout"
    if res["compile_error"]:
        return "inconclusive", "harness crate does not compile against the current sources"
    if res["oom"] or res["cbmc_failed"]:
        return "inconclusive", "CBMC out of memory / failed"
    if res["verdict_line"] is None:
        return "inconclusive", "no verdict line in Kani output"
    unwinding = [f for f in res["failed"] if "unwinding assertion" in f["description"] or "recursion unwinding" in f["description"]]
    if unwinding:
        return "inconclusive", "unwinding assertion failed: bound too small for the current code (%s)" % unwinding[0]["location"]
    if res["failed"]:
        return "fail", "%d assertion(s) failed" % len(res["failed"])
    if res["verdict_line"] != "SUCCESSFUL":
        if res.get("errors"):
            return "inconclusive", "CBMC gave no verdict for %d checks (status ERROR: out of memory or solver failure)" % res["errors"]
        return "inconclusive", "verdict %s without a failed assertion" % res["verdict_line"]
    if res["covers_unsat"]:
        return "vacuous", "cover witness not satisfied: %s" % res["covers_unsat"][0]["description"]
    return "pass", "all %d checks hold" % res["checks"]


def run_one(harness, worker, timeout_s, mem_kb, extra_args=None, features=None, playback=False, module=None, submod="verif", cbmc_extra=None, memcmp=None):
    tdir = os.path.join(WORK, "kt_%d" % worker)
    logdir = os.path.join(WORK, "logs")
    os.makedirs(logdir, exist_ok=True)
    log = os.path.join(logdir, harness + (".playback" if playback else "") + ".log")
    cmd = ["cargo", "kani"] + BASE_ARGS
    if playback:
        cmd += ["-Z", "concrete-playback", "--concrete-playback=print"]
    if features:
        cmd += ["--features", features]
    fq = ("%s::%s::%s" % (module.replace("/", "::").replace("::mod", ""), submod, harness)) if module else harness
    cmd += ["--target-dir", tdir, "--harness", fq] + (["--exact"] if module else []) + (extra_args or []) + (["--cbmc-args", "--unwindset", "memcmp.0:%d" % memcmp] if memcmp else CBMC_ARGS) + (cbmc_extra or [])
    env = dict(os.environ)
    env["CARGO_NET_OFFLINE"] = "true"
    t0 = time.time()
    shell = "ulimit -v %d; exec timeout %d %s" % (mem_kb, timeout_s, " ".join("'%s'" % c for c in cmd))
    with open(log, "w") as f:
        p = subprocess.run(["bash", "-c", shell], cwd=KANI_DIR, stdout=f, stderr=subprocess.STDOUT, env=env)
    wall = time.time() - t0
    text = open(log, errors="replace").read()
    res = parse_log(text)
    timed_out = p.returncode == 124
    verdict, why = classify(res, timed_out)
    res.update({"harness": harness, "verdict": verdict, "why": why, "wall_s": round(wall, 1), "log": log,
                "returncode": p.returncode, "cached": False})
    return res


MARK = "// ---- appended by /verif/lib/gen.py from "


def failing_parts(log_path):
    """harness files (basenames) in whose appended text rustc reports errors; None if an error lies in ruler's own
    text or in a base harness file (harness/<module>.rs), which everything else depends on"""
    try:
        text = open(log_path, errors="replace").read()
    except OSError:
        return None
    locs = re.findall(r"^\s*--> src/\.\./gen/([\w/]+)\.rs:(\d+):\d+", text, re.M)
    # only locations that belong to an error (not a warning): take those following an "error" header
    err_locs = []
    for m in re.finditer(r"^error(?:\[E\d+\])?:.*?\n\s*--> src/\.\./gen/([\w/]+)\.rs:(\d+):\d+", text, re.M):
        err_locs.append((m.group(1), int(m.group(2))))
    if not err_locs:
        return None
    parts = set()
    for module, line in err_locs:
        gpath = os.path.join(KANI_DIR, "gen", module + ".rs")
        owner = None
        for k, l in enumerate(open(gpath, encoding="utf-8").read().split("\n"), 1):
            if k > line:
                break
            if l.startswith(MARK):
                owner = os.path.basename(l[len(MARK):].split(" ----")[0])
        if owner is None or "__" not in owner:
            return None
        parts.add(owner)
    return parts


def strip_parts(parts):
    """remove the appended text of the given part files from the generated modules"""
    gdir = os.path.join(KANI_DIR, "gen")
    for d, _, fs in os.walk(gdir):
        for f in fs:
            if not f.endswith(".rs"):
                continue
            p = os.path.join(d, f)
            lines = open(p, encoding="utf-8").read().split("\n")
            out, skip = [], False
            for l in lines:
                if l.startswith(MARK):
                    skip = os.path.basename(l[len(MARK):].split(" ----")[0]) in parts
                if not skip:
                    out.append(l)
            if len(out) != len(lines):
                open(p, "w", encoding="utf-8").write("\n".join(out))


def run_harnesses(names, tier, specs):
    """Run the named harnesses (dedup), reuse cached verdicts for identical sources."""
    os.makedirs(WORK, exist_ok=True)
    digest = sources_digest()
    cache_dir = os.path.join(WORK, "verdicts")
    os.makedirs(cache_dir, exist_ok=True)
    timeout_s = int(os.environ.get("VERIF_TIMEOUT", "1500" if tier == "quick" else "3600"))
    mem_kb = int(os.environ.get("VERIF_MEM_KB", "20000000"))
    use_cache = os.environ.get("VERIF_NOCACHE") != "1"
    results = {}
    todo = []
    for n in dict.fromkeys(names):
        part = specs.get(n, {}).get("part")
        kind = specs.get(n, {}).get("kind")
        dg = sources_digest(part, kind) if (part or kind in KIND_MODULES) else digest
        cpath = os.path.join(cache_dir, "%s.%s.json" % (n, dg[:24]))
        if use_cache and os.path.exists(cpath):
            r = json.load(open(cpath))
            r["cached"] = True
            results[n] = r
        else:
            todo.append((n, cpath))

    def job(item):
        idx, (n, cpath) = item
        spec = specs.get(n, {})
        r = run_one(n, (idx + WORKER_BASE) % NWORKERS, spec.get("timeout", timeout_s), max(mem_kb, spec.get("mem_kb", 0)),
                    extra_args=spec.get("extra_args"), features=spec.get("features"), module=spec.get("module"),
                    submod=spec.get("submod", "verif"), memcmp=spec.get("memcmp"))
        if r["verdict"] in ("pass", "fail"):
            json.dump(r, open(cpath, "w"))
        return n, r

    # harnesses that ask for more memory than the default cap run alone, after the parallel batch
    big = [it for it in todo if specs.get(it[0], {}).get("mem_kb", 0) > mem_kb]
    todo = [it for it in todo if it not in big]
    # one harness per worker dir at a time: group by worker index
    groups = {}
    for i, it in enumerate(todo):
        groups.setdefault(i % NWORKERS, []).append((i, it))

    def run_group(g):
        out = []
        for item in g:
            out.append(job(item))
        return out

    with ThreadPoolExecutor(max_workers=NWORKERS) as ex:
        for out in ex.map(run_group, groups.values()):
            for n, r in out:
                results[n] = r
    for i, it in enumerate(big):
        n, r = job((i, it))
        results[n] = r
    return results, digest
