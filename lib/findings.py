"""known_findings.json: genuine defects recorded rather than repaired, and the
record of repaired ones.

  {"findings": [ {"id": "...", "property": "C06", "status": "open",
                  "role": "<key the replay reports>", "what": "<one line>"} ],
   "fixed":    [ "fixed: property=C01 <commit> <what failed>" , ... ]}

An open finding suppresses exactly the violations whose replay reports the
same role key (the specific call site / input class / history), nothing else.
A fixed entry suppresses nothing.  The file is never written at run time.
"""
import json
import os

PATH = "/verif/known_findings.json"


def load():
    if not os.path.exists(PATH):
        return {"findings": [], "fixed": []}
    return json.load(open(PATH))


def match(known, pid, rp):
    role = rp.get("role")
    for k in known.get("findings", []):
        if k.get("status") == "open" and pid in k.get("properties", [k.get("property")]) and role and k.get("role") == role:
            return k
    return None
