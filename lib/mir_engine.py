"""Engine M driver: C15(a) base-62 text form, decided on the MIR of
ticket::encode62 / ticket::decode62 (and the get_timestamp lemma used by the
step harnesses' stub), regenerated from /repo on every run.

Obligations (each a set of solver queries, all must be unsat):
  E   encode62: for every 32-byte value x: no panic (index, overflow, unwrap,
      from_utf8), the result is 43 bytes of the alphabet and
      sum(dig(s_i) * 62^i) = value_le(x)
  D   decode62: for every &str: no panic, and the result equals the
      specification: byte length != 43 -> InvalidLength; else the first char
      outside [0-9a-zA-Z] (any multi-byte char included) -> InvalidCharacter(c);
      else V = sum(dig(c_i) 62^i) >= 2^256 -> Overflow; else Ok(le_bytes_32(V))
  U1  base-256 digits are unique (32 bytes)   } so D(E(x)) = Ok(x) and E(v) = s
  U2  base-62 digits are unique (43 digits)   } for every accepted s = D^-1(v)
  T   get_timestamp = 10^6 * secs + micros, injective in (secs, micros), no
      overflow for secs <= 18_446_744_073_708 (year ~586_000)
Translator validation: the literal vectors of ticket.rs's own tests and seeded
random values are pushed through the native functions (replay crate) and
through this executor run on concrete inputs; any disagreement aborts (exit 2).
"""
import json
import os
import random
import re
import subprocess
import sys
import time

import z3

sys.path.insert(0, "/verif/lib")
import gen
import mirsym
from mirsym import (Executor, Unsupported, Budget, Ref, StrVal, VecVal, EnumVal, CharsIter, VecIter, Unit,
                    I, B, is_conc, conc, extract_function, parse_fn)

VERIF = "/verif"
WORK = os.path.join(VERIF, "work")
ALPHA = "0123456789abcdefghijklmnopqrstuvwxyzABCDEFGHIJKLMNOPQRSTUVWXYZ"   # the documented text form: 0-9 a-z A-Z


def spec_dig(c):
    """digit value of code point c under the documented alphabet, -1 otherwise (z3 expr)"""
    e = z3.IntVal(-1)
    for i, ch in enumerate(ALPHA):
        e = z3.If(c == ord(ch), z3.IntVal(i), e)
    return e


def spec_in_alpha(c):
    return z3.Or(z3.And(c >= 48, c <= 57), z3.And(c >= 97, c <= 122), z3.And(c >= 65, c <= 90))


def utf8_len(c):
    return z3.If(c < 0x80, 1, z3.If(c < 0x800, 2, z3.If(c < 0x10000, 3, 4)))


# --------------------------------------------------------------------------
# callee models (closed list)
# --------------------------------------------------------------------------

class Models:
    def __init__(self):
        self.table = []
        self.named_consts = {}
        self.used = set()

    def add(self, rx, fn, doc):
        self.table.append((re.compile(rx), fn, doc))

    def lookup(self, callee):
        for rx, fn, doc in self.table:
            if rx.fullmatch(callee):
                self.used.add(doc)
                return fn
        return None


def deref(env, v):
    return env[v.key] if isinstance(v, Ref) else v


def build_models():
    M = Models()
    ok = lambda v: (v, [], None)

    def from_bytes_le(ex, env, conds, a, p):
        arr = deref(env, a[0])
        if not isinstance(arr, list):
            raise Unsupported("from_bytes_le on non-array")
        if all(is_conc(b) for b in arr):
            return ok(z3.IntVal(sum(conc(b) * (256 ** i) for i, b in enumerate(arr))))
        # bytes <-> value is a bijection onto [0, 256^len): the value is a fresh integer in that
        # range; the byte-wise definition is kept aside (ex.defs) for counterexample extraction
        X = ex.newint("X", 0, 256 ** len(arr) - 1)
        ex.defs.append((X, list(arr)))
        return ok(X)
    M.add(r"BigUint::from_bytes_le", from_bytes_le, "BigUint::from_bytes_le(b) = sum b_i 256^i")
    M.add(r"<BigUint as (num_traits::)?Zero>::zero", lambda ex, env, c, a, p: ok(z3.IntVal(0)), "BigUint::zero() = 0")
    M.add(r"<BigUint as (num_traits::)?One>::one", lambda ex, env, c, a, p: ok(z3.IntVal(1)), "BigUint::one() = 1")
    for name, op in (("gt", lambda x, y: x > y), ("lt", lambda x, y: x < y), ("ge", lambda x, y: x >= y), ("le", lambda x, y: x <= y)):
        M.add(r"<BigUint as PartialOrd>::" + name, (lambda op: lambda ex, env, c, a, p: ok(op(I(deref(env, a[0])), I(deref(env, a[1])))))(op),
              "BigUint comparison = integer comparison")

    def rem_u32(ex, env, conds, a, p):
        n, d = deref(env, a[0]), a[1]
        if not is_conc(d) or conc(d) <= 0:
            raise Unsupported("BigUint % non-constant")
        q, r = ex.divmod_const(I(n), conc(d))
        return ok(r)
    M.add(r"<&BigUint as Rem<u32>>::rem", rem_u32, "&BigUint % u32 constant = integer remainder (division lemma)")

    def div_assign(ex, env, conds, a, p):
        r_, d = a[0], a[1]
        if not isinstance(r_, Ref) or not is_conc(d) or conc(d) <= 0:
            raise Unsupported("BigUint /= non-constant")
        q, r = ex.divmod_const(I(env[r_.key]), conc(d))
        env[r_.key] = q
        return ok(Unit())
    M.add(r"<BigUint as DivAssign<u32>>::div_assign", div_assign, "BigUint /= u32 constant = integer quotient (division lemma)")

    def mul_assign(ex, env, conds, a, p):
        r_, d = a[0], a[1]
        if not isinstance(r_, Ref):
            raise Unsupported("mul_assign target")
        env[r_.key] = z3.simplify(I(env[r_.key]) * I(d))
        return ok(Unit())
    M.add(r"<BigUint as MulAssign<u32>>::mul_assign", mul_assign, "BigUint *= u32 = integer product")
    M.add(r"<&BigUint as Mul<u32>>::mul", lambda ex, env, c, a, p: ok(I(deref(env, a[0])) * I(a[1])), "&BigUint * u32 = integer product")

    def add_assign(ex, env, conds, a, p):
        r_ = a[0]
        if not isinstance(r_, Ref):
            raise Unsupported("add_assign target")
        env[r_.key] = z3.simplify(I(env[r_.key]) + I(deref(env, a[1])))
        return ok(Unit())
    M.add(r"<BigUint as AddAssign(<BigUint>)?>::add_assign", add_assign, "BigUint += BigUint = integer sum")

    def to_u32(ex, env, conds, a, p):
        n = z3.simplify(I(deref(env, a[0])))
        fits = z3.simplify(n < 2 ** 32)
        return ok(EnumVal("Option", z3.If(fits, z3.IntVal(1), z3.IntVal(0)), {1: [n]}))
    M.add(r"<BigUint as ToPrimitive>::to_u32", to_u32, "BigUint::to_u32 = Some(n) iff n < 2^32")

    def unwrap(kind, good):
        def f(ex, env, conds, a, p):
            v = a[0]
            if not isinstance(v, EnumVal):
                raise Unsupported("unwrap of non-enum")
            bad = z3.simplify(I(v.tag) != good)
            pl = v.payload.get(good)
            if pl is None:
                if z3.is_true(bad):
                    return (Unit(), [], (z3.BoolVal(True), "panic: unwrap on %s" % kind))
                raise Unsupported("unwrap payload missing")
            return (pl[0], [], (bad, "panic: called unwrap() on a None/Err value (%s)" % kind))
        return f
    M.add(r"(std::option::)?Option::<.*>::unwrap", unwrap("Option", 1), "Option::unwrap panics on None")
    M.add(r"(std::result::)?Result::<.*>::unwrap", unwrap("Result", 0), "Result::unwrap panics on Err")

    def from_utf8(ex, env, conds, a, p):
        arr = deref(env, a[0])
        if not isinstance(arr, list):
            raise Unsupported("from_utf8 on non-array")
        ascii_ = z3.And([I(b) < 128 for b in arr])
        # ASCII bytes are valid UTF-8; anything else is reported as Err here (a non-ASCII byte is
        # outside the documented alphabet, so flagging it can never be a false alarm for obligation E)
        return ok(EnumVal("Result", z3.If(ascii_, z3.IntVal(0), z3.IntVal(1)), {0: [("str_of_bytes", arr)]}))
    M.add(r"(std::str::|core::str::)?from_utf8", from_utf8, "str::from_utf8 = Ok for all-ASCII input (else treated as Err)")

    def to_string(ex, env, conds, a, p):
        v = a[0]
        if isinstance(v, tuple) and v[0] == "str_of_bytes":
            return ok(("string", list(v[1])))
        raise Unsupported("to_string on this value")
    M.add(r"<str as ToString>::to_string", to_string, "str::to_string copies the bytes")

    def str_len(ex, env, conds, a, p):
        s = deref(env, a[0])
        if not isinstance(s, StrVal):
            raise Unsupported("str::len on non-str")
        return ok(s.blen)
    M.add(r"core::str::<impl str>::len", str_len, "str::len = byte length")

    def chars(ex, env, conds, a, p):
        s = deref(env, a[0])
        if not isinstance(s, StrVal):
            raise Unsupported("chars on non-str")
        return ok(CharsIter(s, 0))
    M.add(r"core::str::<impl str>::chars", chars, "str::chars iterates the code points in order")
    M.add(r"<Chars<'_> as IntoIterator>::into_iter", lambda ex, env, c, a, p: ok(a[0]), "IntoIterator for Chars = identity")
    M.add(r"<Vec<u8> as IntoIterator>::into_iter", lambda ex, env, c, a, p: ok(VecIter(a[0], 0)) if isinstance(a[0], VecVal) else (_ for _ in ()).throw(Unsupported("into_iter")),
          "IntoIterator for Vec<u8> yields the elements in order")

    def chars_next(ex, env, conds, a, p):
        r_ = a[0]
        it = env[r_.key] if isinstance(r_, Ref) else None
        if not isinstance(it, CharsIter):
            raise Unsupported("Chars::next receiver")
        s = it.s
        if it.pos >= len(s.chars):
            # only reachable if the string could have more chars than modelled
            more = z3.simplify(I(s.nchars) > it.pos)
            okk, _ = ex.sat(conds + [more])
            if okk:
                raise Unsupported("string model exhausted (more than %d chars reachable)" % len(s.chars))
            return ok(EnumVal("Option", 0, {}))
        some = z3.simplify(I(s.nchars) > it.pos)
        env[r_.key] = CharsIter(s, it.pos + 1)
        return ok(EnumVal("Option", z3.If(some, z3.IntVal(1), z3.IntVal(0)), {1: [s.chars[it.pos]]}))
    M.add(r"<Chars<'_> as Iterator>::next", chars_next, "Chars::next = next code point or None at the end")

    def vec_next(ex, env, conds, a, p):
        r_ = a[0]
        it = env[r_.key] if isinstance(r_, Ref) else None
        if not isinstance(it, VecIter):
            raise Unsupported("IntoIter::next receiver")
        v = it.v
        if it.pos >= len(v.items):
            more = z3.simplify(I(v.length) > it.pos)
            okk, _ = ex.sat(conds + [more])
            if okk:
                raise Unsupported("vector model exhausted")
            return ok(EnumVal("Option", 0, {}))
        some = z3.simplify(I(v.length) > it.pos)
        env[r_.key] = VecIter(v, it.pos + 1)
        return ok(EnumVal("Option", z3.If(some, z3.IntVal(1), z3.IntVal(0)), {1: [v.items[it.pos]]}))
    M.add(r"<std::vec::IntoIter<u8> as Iterator>::next", vec_next, "vec::IntoIter::next = next element or None")

    def to_bytes_le(ex, env, conds, a, p):
        n = z3.simplify(I(deref(env, a[0])))
        NB = 34
        if is_conc(n):
            v = conc(n)
            bs = []
            while True:
                bs.append(z3.IntVal(v % 256))
                v //= 256
                if v == 0:
                    break
            return ok(VecVal(z3.IntVal(len(bs)), bs + [z3.IntVal(0)] * (NB - len(bs))))
        okk, _ = ex.sat(conds + [n >= 256 ** NB])
        if okk:
            raise Unsupported("to_bytes_le: value may need more than %d bytes" % NB)
        bs = [ex.newint("b", 0, 255) for _ in range(NB)]
        ln = ex.newint("blen", 1, NB)
        ex.side.append(n == z3.Sum([b * (256 ** i) for i, b in enumerate(bs)]))
        for j in range(NB):
            ex.side.append(z3.Implies(ln <= j, bs[j] == 0))
            if j >= 1:
                ex.side.append(z3.Implies(ln == j + 1, bs[j] != 0))
        return ok(VecVal(ln, bs))
    M.add(r"BigUint::to_bytes_le", to_bytes_le, "BigUint::to_bytes_le = minimal little-endian base-256 digits ([0] for zero)")
    M.add(r"Vec::<u8>::len", lambda ex, env, c, a, p: ok(deref(env, a[0]).length), "Vec::len")

    # get_timestamp
    def duration_since(ex, env, conds, a, p):
        t = deref(env, a[0])
        if not (isinstance(t, tuple) and t[0] == "systime"):
            raise Unsupported("duration_since receiver")
        _, before, secs, nanos = t
        return ok(EnumVal("Result", z3.If(before, z3.IntVal(1), z3.IntVal(0)), {0: [("duration", secs, nanos)], 1: [("systime_error",)]}))
    M.add(r"SystemTime::duration_since", duration_since, "SystemTime::duration_since(UNIX_EPOCH) = Ok(secs, nanos) for times not before the epoch")
    M.named_consts["std::time::SystemTime::UNIX_EPOCH"] = lambda ex: ("epoch",)
    M.add(r"Duration::as_secs", lambda ex, env, c, a, p: ok(deref(env, a[0])[1]), "Duration::as_secs")

    def subsec_micros(ex, env, conds, a, p):
        d = deref(env, a[0])
        q, r = ex.divmod_const(I(d[2]), 1000)
        return ok(q)
    M.add(r"Duration::subsec_micros", subsec_micros, "Duration::subsec_micros = nanos / 1000")
    M.add(r"<u64 as From<u32>>::from", lambda ex, env, c, a, p: ok(a[0]), "u64::from(u32) = identity")
    return M


# --------------------------------------------------------------------------
# MIR dump
# --------------------------------------------------------------------------

def dump_mir():
    """MIR of the generated copy of /repo/src (replay crate layout, no harness text)."""
    crate = os.path.join(VERIF, "replay")
    meta = gen.generate(crate)
    lock = os.path.join(crate, "Cargo.lock")
    if not os.path.exists(lock):
        import shutil
        shutil.copy("/repo/Cargo.lock", lock)
    os.utime(os.path.join(crate, "src", "lib.rs"), None)
    env = dict(os.environ)
    env["CARGO_NET_OFFLINE"] = "true"
    out = os.path.join(WORK, "mir_dump.txt")
    os.makedirs(WORK, exist_ok=True)
    t0 = time.time()
    p = subprocess.run(["cargo", "+nightly", "rustc", "--offline", "--lib", "--target-dir", os.path.join(WORK, "mir_target"), "--",
                        "-Zunpretty=mir", "-C", "debug-assertions=off", "-C", "overflow-checks=on"],
                       cwd=crate, env=env, capture_output=True, text=True)
    if p.returncode != 0 or "fn " not in p.stdout:
        return None, p.stderr[-3000:], meta, time.time() - t0
    open(out, "w").write(p.stdout)
    return p.stdout, "", meta, time.time() - t0


# --------------------------------------------------------------------------
# obligations
# --------------------------------------------------------------------------

class Outcome:
    def __init__(self, name):
        self.name = name
        self.queries = 0
        self.solver_s = 0.0
        self.paths = 0
        self.pruned = 0
        self.failures = []      # dicts with 'what', 'model'
        self.inconclusive = None
        self.samples = []
        self.models_used = []


def check_unsat(ex, conds, out, what, model_vars):
    okk, model = ex.sat(conds)
    if okk:
        vals = {}
        for k, v in model_vars.items():
            try:
                if isinstance(v, list):
                    vals[k] = [model.eval(I(x), model_completion=True).as_long() for x in v]
                else:
                    vals[k] = model.eval(I(v), model_completion=True).as_long()
            except Exception:
                vals[k] = str(v)
        if "value" in vals and isinstance(vals["value"], int):
            vals["bytes"] = [(vals["value"] >> (8 * i)) & 255 for i in range(32)]
        out.failures.append({"what": what, "model": vals})
        return False
    return True


def finish(ex, out, M):
    out.queries = ex.res.queries
    out.solver_s = round(ex.res.solver_s, 3)
    out.paths = ex.res.paths
    out.pruned = ex.res.pruned
    out.models_used = sorted(M.used)


def run_encode(mir, budget_s, concrete=None):
    """Obligation E (or, with `concrete` = 32 ints, a concrete evaluation returning the string)."""
    out = Outcome("E:encode62")
    M = build_models()
    fn = parse_fn(extract_function(mir, "encode62"), "encode62")
    ex = Executor(mir, fn, M, max_seconds=budget_s)
    if concrete is not None:
        xs = [z3.IntVal(b) for b in concrete]
    else:
        xs = [z3.Int("x%d" % i) for i in range(32)]
        for x in xs:
            ex.side.append(z3.And(x >= 0, x <= 255))
    env = {"arg1": xs, 1: Ref("arg1")}
    res = ex.run(env, [])
    if concrete is not None:
        finish(ex, out, M)
        for conds, msg, tr in res.panics:
            okk, _ = ex.sat(conds)
            if okk:
                return out, ("panic", msg)
        assert len(res.returns) == 1, "concrete run forked"
        v = res.returns[0][1]
        return out, ("ok", "".join(chr(conc(z3.simplify(I(b)))) for b in v[1]))
    if len(ex.defs) != 1 or any(a is not b for a, b in zip(ex.defs[0][1], xs)):
        raise Unsupported("encode62 does not start with BigUint::from_bytes_le(bytes) on its whole argument")
    X = ex.defs[0][0]
    mv = {"value": X}
    for conds, msg, tr in res.panics:
        check_unsat(ex, conds, out, "encode62 can panic: %s" % msg, mv)
    for conds, v, tr in res.returns:
        if not (isinstance(v, tuple) and v[0] == "string"):
            out.failures.append({"what": "encode62 returned something that is not a String built from its buffer", "model": {}})
            continue
        s = v[1]
        if len(s) != 43:
            out.failures.append({"what": "text form is %d characters long, not 43" % len(s), "model": {}})
            continue
        iters = sum(1 for t in tr if t.endswith("otherwise"))
        digs = []
        generic = False
        bad_here = False
        for i in range(43):
            b = z3.simplify(I(s[i]))
            if is_conc(b):
                d = ALPHA.find(chr(conc(b))) if 0 <= conc(b) < 128 else -1
                if d < 0:
                    if check_unsat(ex, conds, out, "character %d of the text form is byte %d, outside [0-9a-zA-Z]" % (i, conc(b)), mv):
                        pass
                    bad_here = True
                    break
                digs.append(z3.IntVal(d))
            elif b.get_id() in ex.selects:
                var, table, idx = ex.selects[b.get_id()]
                wrong = [j for j, c in enumerate(table) if not (0 <= c < 128 and ALPHA.find(chr(c)) == j)]
                if wrong:
                    # the table is not the documented alphabet at entries `wrong`: a violation iff such an entry can be selected here
                    if not check_unsat(ex, conds + [z3.Or([idx == j for j in wrong])], out,
                                       "digit table entry %s is not the documented alphabet character (text position %d)" % (wrong[:4], i), mv):
                        bad_here = True
                        break
                digs.append(idx)
            else:
                generic = True
                d = ex.newint("d", -1, 61)
                ex.side.append(d == spec_dig(b))
                digs.append(d)
        if bad_here:
            continue
        bad = z3.Or(z3.Or([z3.Or(d < 0, d > 61) for d in digs]), z3.Sum([d * (62 ** i) for i, d in enumerate(digs)]) != X)
        check_unsat(ex, conds + [bad], out,
                    "encode62 output is not the 43-digit little-endian base-62 text of the value (path with %d loop iterations%s)" % (iters, ", generic digit encoding" if generic else ""), mv)
        if len(out.samples) < 3:
            out.samples.append({"path": tr[-3:], "conds": len(conds)})
    finish(ex, out, M)
    return out, None


def make_str(ex, nmodel, concrete=None):
    if concrete is not None:
        cps = [ord(c) for c in concrete]
        chars = [z3.IntVal(c) for c in cps] + [z3.IntVal(0)] * max(0, nmodel - len(cps))
        return StrVal(chars, z3.IntVal(len(cps)), z3.IntVal(len(concrete.encode("utf-8")))), chars
    chars = [z3.Int("c%d" % i) for i in range(nmodel)]
    for c in chars:
        ex.side.append(z3.And(c >= 0, c <= 0x10FFFF, z3.Or(c < 0xD800, c > 0xDFFF)))
    n = z3.Int("nchars")
    L = z3.Int("bytelen")
    ex.side.append(z3.And(n >= 0, L >= n))
    lens = [z3.Int("l%d" % i) for i in range(nmodel)]
    for c, l in zip(chars, lens):
        ex.side.append(z3.And(l >= 1, l <= 4, l == utf8_len(c), (c < 0x80) == (l == 1)))
    ex.side.append(z3.Implies(n <= nmodel, L == z3.Sum([z3.If(n > i, lens[i], 0) for i in range(nmodel)])))
    ex.side.append(z3.Implies(n > nmodel, L > nmodel))
    return StrVal(chars, n, L), chars


def run_decode(mir, budget_s, concrete=None):
    out = Outcome("D:decode62")
    M = build_models()
    fn = parse_fn(extract_function(mir, "decode62"), "decode62")
    ex = Executor(mir, fn, M, max_seconds=budget_s)
    NM = 43
    s, chars = make_str(ex, NM, concrete)
    env = {"arg1": s, 1: Ref("arg1")}
    res = ex.run(env, [])
    if concrete is not None:
        finish(ex, out, M)
        for conds, msg, tr in res.panics:
            okk, _ = ex.sat(conds)
            if okk:
                return out, ("panic", msg)
        assert len(res.returns) == 1, "concrete run forked"
        v = res.returns[0][1]
        if conc(z3.simplify(I(v.tag))) == 0:
            return out, ("ok", [conc(z3.simplify(I(b))) for b in v.payload[0][0]])
        e = v.payload[1][0]
        name = mirsym.VARIANTS["FromHumanReadableError"][conc(z3.simplify(I(e.tag)))]
        if name == "InvalidCharacter":
            return out, ("err", name, conc(z3.simplify(I(e.payload[e.tag][0]))))
        return out, ("err", name)
    mv = {"chars": chars, "nchars": s.nchars, "bytelen": s.blen}
    for conds, msg, tr in res.panics:
        check_unsat(ex, conds, out, "decode62 can panic: %s" % msg, mv)
    # specification, as formulas over the same symbols
    len_ok = s.blen == 43
    inalpha_f = [spec_in_alpha(c) for c in chars]
    # Table lemma (evaluated entry-wise on the concrete switch table of the code): where a path
    # went through a merged switch on char i whose table IS the documented alphabet, the path
    # condition implies "char i is in the alphabet" and the switch variable IS its digit value.
    exact = {}
    for dv, table, scrut, cond in ex.merges.values():
        ok_table = sorted(v for v, _ in table) == sorted(ord(ch) for ch in ALPHA) and all(0 <= v < 128 and ALPHA.find(chr(v)) == c for v, c in table)
        for i, c in enumerate(chars):
            if scrut.get_id() == c.get_id():
                exact[i] = (dv, cond, ok_table)

    def spec_for(conds):
        ids = set(id(c) for c in conds)
        inalpha, digs = [], []
        for i in range(NM):
            if i in exact and exact[i][2] and id(exact[i][1]) in ids:
                inalpha.append(z3.BoolVal(True))
                digs.append(exact[i][0])
            else:
                inalpha.append(inalpha_f[i])
                digs.append(z3.If(inalpha_f[i], spec_dig(chars[i]), 0))
        V = z3.Sum([digs[i] * (62 ** i) for i in range(NM)])
        all_alpha = z3.And([z3.Implies(s.nchars > i, inalpha[i]) for i in range(NM)])
        return inalpha, V, all_alpha
    for conds, v, tr in res.returns:
        if not isinstance(v, EnumVal):
            out.failures.append({"what": "decode62 returned a non-Result", "model": {}})
            continue
        tag = conc(z3.simplify(I(v.tag)))
        inalpha, V, all_alpha = spec_for(conds)
        if tag == 0:
            r = v.payload[0][0]
            good = z3.And(len_ok, all_alpha, V < 2 ** 256, z3.Sum([I(b) * (256 ** j) for j, b in enumerate(r)]) == V,
                          z3.And([z3.And(I(b) >= 0, I(b) <= 255) for b in r]))
            check_unsat(ex, conds + [z3.Not(good)], out, "decode62 returns Ok for a string that is not a valid text form, or Ok with the wrong value", mv)
        else:
            e = v.payload[1][0]
            etag = conc(z3.simplify(I(e.tag)))
            name = mirsym.VARIANTS["FromHumanReadableError"][etag]
            if name == "InvalidLength":
                good = z3.Not(len_ok)
            elif name == "Overflow":
                good = z3.And(len_ok, all_alpha, V >= 2 ** 256)
            else:
                c = I(e.payload[etag][0])
                first_bad = z3.Or([z3.And(s.nchars > i, z3.Not(inalpha[i]), c == chars[i], z3.And([inalpha[j] for j in range(i)]))
                                   for i in range(NM)])
                good = z3.And(len_ok, first_bad)
            check_unsat(ex, conds + [z3.Not(good)], out, "decode62 reports %s where the documented format says otherwise" % name, mv)
        if len(out.samples) < 4:
            out.samples.append({"path_tail": tr[-2:], "result": "Ok" if tag == 0 else "Err"})
    # completeness: some path must return for every input -- the union of path conditions covers everything
    cover = z3.Or([z3.And(conds) if conds else z3.BoolVal(True) for conds, _, _ in res.returns] +
                  [z3.And(conds) for conds, _, _ in res.panics] + [z3.BoolVal(False)])
    check_unsat(ex, [z3.Not(cover)], out, "executor lost an input class of decode62 (internal)", mv)
    finish(ex, out, M)
    return out, None


def run_uniqueness(budget_s):
    out = Outcome("U:digit-uniqueness")
    t0 = time.time()
    s = z3.Solver()
    s.set("timeout", int(budget_s * 1000))
    a = [z3.Int("a%d" % i) for i in range(32)]
    b = [z3.Int("b%d" % i) for i in range(32)]
    for x in a + b:
        s.add(x >= 0, x <= 255)
    s.add(z3.Sum([x * 256 ** i for i, x in enumerate(a)]) == z3.Sum([x * 256 ** i for i, x in enumerate(b)]))
    s.add(z3.Or([a[i] != b[i] for i in range(32)]))
    r1 = s.check()
    s2 = z3.Solver()
    s2.set("timeout", int(budget_s * 1000))
    c = [z3.Int("c%d" % i) for i in range(43)]
    d = [z3.Int("d%d" % i) for i in range(43)]
    for x in c + d:
        s2.add(x >= 0, x <= 61)
    s2.add(z3.Sum([x * 62 ** i for i, x in enumerate(c)]) == z3.Sum([x * 62 ** i for i, x in enumerate(d)]))
    s2.add(z3.Or([c[i] != d[i] for i in range(43)]))
    r2 = s2.check()
    out.queries = 2
    out.solver_s = round(time.time() - t0, 3)
    if r1 != z3.unsat or r2 != z3.unsat:
        if r1 == z3.sat or r2 == z3.sat:
            out.failures.append({"what": "digit representation not unique (internal)", "model": {}})
        else:
            out.inconclusive = "uniqueness lemma: solver answered unknown"
    return out


def run_timestamp(mir, budget_s):
    out = Outcome("T:get_timestamp")
    M = build_models()
    fn = parse_fn(extract_function(mir, "get_timestamp"), "get_timestamp")
    ex = Executor(mir, fn, M, max_seconds=budget_s)
    secs, nanos = z3.Int("secs"), z3.Int("nanos")
    before = z3.Bool("before_epoch")
    SECMAX = 18446744073708
    ex.side.append(z3.And(secs >= 0, secs <= SECMAX, nanos >= 0, nanos < 10 ** 9))
    env = {1: ("systime", before, secs, nanos)}
    res = ex.run(env, [])
    mv = {"secs": secs, "nanos": nanos}
    for conds, msg, tr in res.panics:
        check_unsat(ex, conds, out, "get_timestamp can panic for a time before year 586_000: %s" % msg, mv)
    q, r = ex.divmod_const(nanos, 1000)
    for conds, v, tr in res.returns:
        tag = conc(z3.simplify(I(v.tag)))
        if tag == 0:
            good = z3.And(z3.Not(before), I(v.payload[0][0]) == 10 ** 6 * secs + q)
        else:
            good = before
        check_unsat(ex, conds + [z3.Not(good)], out, "get_timestamp is not 10^6*secs + micros", mv)
        out.samples.append({"result": "Ok" if tag == 0 else "Err", "path": tr})
    finish(ex, out, M)
    # injectivity in (secs, micros) is arithmetic on the formula just established
    s = z3.Solver()
    s1, m1, s2_, m2 = z3.Ints("s1 m1 s2 m2")
    s.add(s1 >= 0, s2_ >= 0, m1 >= 0, m1 < 10 ** 6, m2 >= 0, m2 < 10 ** 6, 10 ** 6 * s1 + m1 == 10 ** 6 * s2_ + m2, z3.Or(s1 != s2_, m1 != m2))
    if s.check() != z3.unsat:
        out.failures.append({"what": "10^6*secs+micros not injective (internal)", "model": {}})
    out.queries += 1
    return out


# --------------------------------------------------------------------------
# translator validation against the native functions
# --------------------------------------------------------------------------

def native_vectors(values, strings):
    """Run the REAL encode62/decode62 (replay crate, native) on the vectors."""
    crate = os.path.join(VERIF, "replay")
    vec_path = os.path.join(WORK, "b62_vectors.txt")
    with open(vec_path, "w") as f:
        for v in values:
            f.write("E " + ",".join(str(b) for b in v) + "\n")
        for s in strings:
            f.write("D " + ",".join(str(ord(c)) for c in s) + "\n")
    env = dict(os.environ)
    env["CARGO_NET_OFFLINE"] = "true"
    env["VERIF_B62_VECTORS"] = vec_path
    p = subprocess.run(["cargo", "test", "--offline", "--quiet", "b62_vectors_from_env", "--", "--nocapture", "--test-threads", "1"],
                       cwd=crate, env=env, capture_output=True, text=True, timeout=1200)
    outs = re.findall(r"^B62 (.*)$", p.stdout, re.M)
    if len(outs) != len(values) + len(strings):
        return None, (p.stdout + p.stderr)[-2000:]
    return outs, ""


def literal_vectors():
    """the literal vectors of ticket.rs's own tests (43-char strings and [u8;32] literals)"""
    src = open("/repo/src/ticket.rs", encoding="utf-8").read()
    strings = sorted(set(re.findall(r"\"([0-9a-zA-Z]{43})\"", src)))
    others = ["", "0", "0" * 42, "0" * 44, "Z" * 43, "0" * 42 + "-", "é" + "0" * 41, "0" * 21 + "é" + "0" * 20, "fZZZZZZZZZZZZZZZZZZZZZZZZZZZZZZZZZZZZZZZZZ1"[:43],
              "0" * 42 + "1", "1" + "0" * 42]
    return strings, others


def validate_translator(mir, seed, nrand):
    rng = random.Random(seed)
    values = [[0] * 32, [255] * 32, [1] + [0] * 31, [0] * 31 + [1], [0] * 31 + [128]]
    for _ in range(nrand):
        k = rng.choice([1, 2, 8, 31, 32])
        values.append([rng.randrange(256) if i < k else 0 for i in range(32)])
    lits, others = literal_vectors()
    strings = lits + others
    for _ in range(nrand):
        strings.append("".join(rng.choice(ALPHA) for _ in range(43)))
    native, err = native_vectors(values, strings)
    if native is None:
        return False, "native vector run failed: " + err, 0
    n = 0
    for v, nat in zip(values, native[:len(values)]):
        _, got = run_encode(mir, 60, concrete=v)
        mine = "S " + got[1] if got[0] == "ok" else "PANIC"
        if mine != nat:
            return False, "translator disagrees with native encode62 on %s: native %r, encoding %r" % (v, nat, mine), n
        n += 1
    for s, nat in zip(strings, native[len(values):]):
        _, got = run_decode(mir, 60, concrete=s)
        if got[0] == "ok":
            mine = "OK " + ",".join(str(b) for b in got[1])
        elif got[0] == "err":
            mine = "ERR " + got[1] + ("(%d)" % got[2] if len(got) > 2 else "")
        else:
            mine = "PANIC"
        if mine != nat:
            return False, "translator disagrees with native decode62 on %r: native %r, encoding %r" % (s, nat, mine), n
        n += 1
    return True, "", n


# --------------------------------------------------------------------------
# replay of a counterexample against the native functions
# --------------------------------------------------------------------------

def replay_failure(f):
    """Re-run a solver model natively; returns (reproduced, text)."""
    m = f.get("model", {})
    if "bytes" in m and isinstance(m["bytes"], list):
        v = [int(b) % 256 for b in m["bytes"]]
        nat, err = native_vectors([v], [])
        if nat is None:
            return False, "native run failed: " + err
        out = nat[0]
        if out == "PANIC" or not out.startswith("S "):
            return True, "encode62(%s) natively: %s" % (v, out)
        s = out[2:]
        # independent reference: big-int base-62 in python
        x = sum(b << (8 * i) for i, b in enumerate(v))
        ref = ""
        t = x
        for _ in range(43):
            ref += ALPHA[t % 62]
            t //= 62
        if s != ref:
            return True, "encode62(%s) natively = %r, documented text form = %r" % (v, s, ref)
        # round trip natively
        nat2, _ = native_vectors([], [s])
        if nat2 and nat2[0] != "OK " + ",".join(str(b) for b in v):
            return True, "decode62(encode62(x)) natively = %s for x = %s" % (nat2[0], v)
        return False, "native encode62 agrees with the reference on the solver's value"
    if "chars" in m:
        n = int(m.get("nchars", 0))
        cps = [int(c) for c in m["chars"]][:max(0, min(n, 43))]
        try:
            s = "".join(chr(c) for c in cps)
            s.encode("utf-8")
        except Exception:
            return False, "solver model is not a valid string"
        nat, err = native_vectors([], [s])
        if nat is None:
            return False, "native run failed: " + err
        # reference
        if len(s.encode("utf-8")) != 43:
            ref = "ERR InvalidLength"
        else:
            bad = [c for c in s if c not in ALPHA]
            if bad:
                ref = "ERR InvalidCharacter(%d)" % ord(bad[0])
            else:
                V = sum(ALPHA.index(c) * 62 ** i for i, c in enumerate(s))
                ref = "ERR Overflow" if V >= 2 ** 256 else "OK " + ",".join(str((V >> (8 * j)) & 255) for j in range(32))
        if nat[0] != ref:
            return True, "decode62(%r) natively = %s, documented = %s" % (s, nat[0], ref)
        return False, "native decode62 agrees with the reference on the solver's string"
    return False, "no replayable model"


# --------------------------------------------------------------------------

def run(pid, tier, seed):
    import findings
    t0 = time.time()
    budget = 240 if tier == "quick" else 1500
    mir, err, meta, mir_s = dump_mir()
    evidence = {"property_id": pid, "tier": tier, "seed": seed, "level": "model_checking"}
    inconclusive = []
    outs = []
    validated = 0
    if mir is None:
        inconclusive.append("MIR dump failed: " + err[-500:])
    else:
        try:
            okv, why, validated = validate_translator(mir, seed, 12 if tier == "quick" else 200)
            if not okv:
                inconclusive.append("translator validation: " + why)
        except (Unsupported, Budget) as e:
            inconclusive.append("translator validation: %s: %s" % (type(e).__name__, e))
        for name, f in (("E", lambda: run_encode(mir, budget)[0]), ("D", lambda: run_decode(mir, budget)[0]),
                        ("U", lambda: run_uniqueness(budget)), ("T", lambda: run_timestamp(mir, budget))):
            try:
                o = f()
                outs.append(o)
                if o.inconclusive:
                    inconclusive.append(o.name + ": " + o.inconclusive)
            except Unsupported as e:
                inconclusive.append("%s: construct outside the encoder's closed model list: %s" % (name, e))
            except Budget as e:
                inconclusive.append("%s: %s" % (name, e))
    lines = []
    reported = []
    exit_code = 0
    known = findings.load()
    os.makedirs(os.path.join(VERIF, "replays"), exist_ok=True)
    replayed = 0
    for o in outs:
        for k, f in enumerate(o.failures[:5]):
            replayed += 1
            rep, text = replay_failure(f)
            path = os.path.join(VERIF, "replays", "%s_%s_%d.json" % (pid, o.name.split(":")[0], k))
            json.dump({"property": pid, "obligation": o.name, "what": f["what"], "model": f["model"], "native": text, "reproduced": rep},
                      open(path, "w"), indent=1)
            if rep:
                role = "%s: %s" % (o.name, f["what"].split("(")[0].strip())
                kf = findings.match(known, pid, {"role": role})
                if kf:
                    lines.append("KNOWN-FINDING: property=%s %s" % (pid, kf["what"]))
                else:
                    lines.append("VIOLATION property=%s replay=%s" % (pid, path))
                    reported.append({"obligation": o.name, "what": f["what"], "native": text, "replay": path})
                    exit_code = 1
            else:
                inconclusive.append("%s: solver counterexample (%s) did not reproduce natively: %s" % (o.name, f["what"], text))
    if exit_code == 0 and inconclusive:
        exit_code = 2
    nq = sum(o.queries for o in outs)
    funcs = []
    for mod, fnname in (("ticket", "encode62"), ("ticket", "decode62"), ("system/util", "get_timestamp")):
        span = gen.function_span(mod, fnname)
        funcs.append({"file": "src/%s.rs" % mod, "fn": fnname, "lines": list(span[:2]) if span else None, "sha": span[2] if span else None})
    evidence.update({
        "coverage": {
            "evaluations": nq + validated,
            "distinct_nontrivial": nq,
            "rule": "one evaluation = one solver query (path-feasibility, panic or post-condition query over ALL values of the symbolic input) or one translator-validation vector; distinct_nontrivial counts the solver queries only (each is a different path prefix / obligation)",
            "samples": [{"obligation": o.name, "paths": o.paths, "pruned_branches": o.pruned, "queries": o.queries, "solver_s": o.solver_s,
                         "failures": [f["what"] for f in o.failures], "example_paths": o.samples[:3]} for o in outs],
            "obligations": 4,
            "discharged": sum(1 for o in outs if not o.failures and not o.inconclusive),
            "functions_encoded": funcs,
            "encoding": "rustc nightly -Zunpretty=mir of the regenerated copy of /repo/src -> lib/mirsym.py path-wise symbolic execution -> z3 %s (Int theory, division lemma); MIR dump %.1fs" % (z3.get_version_string(), mir_s),
            "bounds": "encode62: all 2^256 values (loop unrolled path-wise, 44 exits); decode62: all strings (byte length free; chars modelled up to 43, longer strings only reach the length check); get_timestamp: secs <= 18446744073708",
            "library_models": sorted(set(sum([o.models_used for o in outs], []))),
            "translator_validation_vectors": validated,
            "solver_queries": nq,
            "solver_time_s": round(sum(o.solver_s for o in outs), 2),
            "counterexamples_replayed_natively": replayed,
            "inconclusive": inconclusive,
            "outside_the_claim": "num-bigint is modelled as the integers and rust-crypto's SHA-256 is not encoded; see the Kani half of C15 for from_file/from_directory",
            "exhaustive": False,
        },
        "assumptions": ["num_bigint::BigUint arithmetic = integer arithmetic (closed model list in lib/mir_engine.py)",
                        "str::chars yields the string's code points; a &str is valid UTF-8",
                        "rustc's MIR is what gets compiled (the dump is taken with overflow checks on, debug assertions off)"],
        "wall_s": round(time.time() - t0, 1),
        "violations": len(reported),
    })
    return exit_code, evidence, lines, outs, inconclusive


if __name__ == "__main__":
    # python3-vt lib/mir_engine.py <pid> <tier> <seed> [--json <out>]
    pid = sys.argv[1] if len(sys.argv) > 1 else "C15"
    tier = sys.argv[2] if len(sys.argv) > 2 else "quick"
    seed = int(sys.argv[3]) if len(sys.argv) > 3 else 0
    code, ev, lines, outs, inc = run(pid, tier, seed)
    if "--json" in sys.argv:
        json.dump({"exit_code": code, "evidence": ev, "lines": lines, "inconclusive": inc,
                   "summary": [[o.name, o.queries, o.paths, o.solver_s, [f["what"] for f in o.failures][:3]] for o in outs]},
                  open(sys.argv[sys.argv.index("--json") + 1], "w"), indent=1)
    for o in outs:
        print("  %-22s queries=%d paths=%d solver=%.1fs failures=%s" % (o.name, o.queries, o.paths, o.solver_s, [f["what"] for f in o.failures][:3]))
    for i in inc:
        print("INCONCLUSIVE", i)
    for l in lines:
        print(l)
    print("engine M %s %s: exit %d (%.0fs)" % (pid, tier, code, ev["wall_s"]))
    sys.exit(code)
