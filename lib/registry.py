"""Which harnesses decide which property, in which tier.

Every harness assertion message starts with the list of properties it speaks
for, e.g. "[C07][C11] ...".  A property's check runs the harnesses listed here
and reports the failed assertions whose tag list contains the property.  A
failed assertion carrying only other tags is left to those properties' checks.
"""

# harness name -> description of what real code it symbolically executes
HARNESSES = {
    # name: dict(engine, module, functions=[(module, fn)], stubs=[...], bounds="...", unwind=.., extra_args=[...])
    "step_resolve_single_target": dict(
        module="blob",
        functions=[("blob", "resolve_single_target"), ("blob", "restore_or_download"), ("blob", "get_file_ticket"),
                   ("blob", "get_file_ticket_from_path"), ("ticket", "from_file"), ("cache", "restore_file"),
                   ("cache", "back_up_file_with_ticket")],
        bounds="1 target, any remembered hash (universe content or foreign digest); pre-state: 3 workspace files x 5 contents x 8 mtimes, 5 cache slots, table entry known/unknown; unwind 4",
        kind="step"),
    "step_resolve_phase_1t": dict(
        module="work",
        functions=[("work", "resolve_with_cache"), ("blob", "resolve_remembered_file_state_vec"),
                   ("blob", "resolve_with_no_current_file_states"), ("blob", "resolve_single_target"),
                   ("blob", "restore_or_download"), ("blob", "get_file_ticket"), ("blob", "get_file_ticket_from_path"),
                   ("history", "get_file_state_vec"), ("ticket", "from_file"), ("cache", "restore_file"),
                   ("cache", "back_up_file_with_ticket")],
        bounds="resolve phase of handle_rule_node, rule with 1 target; history: none / truthful entry (I2) + one unrelated entry; pre-state: 3 workspace files x 5 contents x 8 mtimes, 5 cache slots, table entries known/unknown under I3; unwind 4",
        kind="step"),
    "step_resolve_phase_2t": dict(
        module="work",
        functions="step_resolve_phase_1t",
        bounds="as step_resolve_phase_1t with 2 targets in independent states (possibly equal contents, possibly each holding what the other needs)",
        kind="step"),
    "step_leaf": dict(
        module="work",
        functions=[("work", "handle_source_only_node"), ("blob", "get_current_file_state_vec"), ("blob", "get_file_ticket"),
                   ("ticket", "from_file")],
        bounds="one source file, present or absent, table entry known/unknown under I3; unwind 4",
        kind="step"),
    "step_clean_1t": dict(
        module="work",
        functions=[("work", "clean_targets"), ("blob", "get_file_ticket"), ("blob", "get_file_ticket_from_path"),
                   ("cache", "back_up_file_with_ticket"), ("cache", "back_up_file"), ("ticket", "from_file")],
        bounds="clean of a rule with 1 target from any pre-state under I1/I3 (target present/absent, table entry known/unknown); unwind 4",
        kind="step"),
    "step_clean_2t": dict(module="work", functions="step_clean_1t",
        bounds="as step_clean_1t with 2 targets (possibly byte-identical, so that both are filed under one cache name)", kind="step"),
    "clean_then_build_1t": dict(
        module="work",
        functions=[("work", "clean_targets"), ("work", "resolve_with_cache"), ("blob", "resolve_remembered_file_state_vec"),
                   ("blob", "resolve_single_target"), ("blob", "restore_or_download"), ("blob", "get_file_ticket"),
                   ("cache", "restore_file"), ("cache", "back_up_file_with_ticket"), ("ticket", "from_file")],
        bounds="clean_targets followed by the resolve phase of the next build on the same symbolic file system, stale file-state table; rule with 1 target that was up to date; unwind 4",
        kind="step"),
    "clean_then_build_2t": dict(module="work", functions="clean_then_build_1t",
        bounds="as clean_then_build_1t, 2 targets with different contents", kind="step"),
    "unit_history_insert": dict(
        module="history", submod="verif_unit",
        functions=[("history", "insert"), ("blob", "compare"), ("history", "get_file_state_vec")],
        bounds="existing entry or none, 1..3 remembered hashes vs 1..3 new hashes over 5 contents; unwind 5",
        kind="unit"),
    "step_tail_1t": dict(
        module="work",
        functions=[("blob", "get_current_file_state_vec"), ("blob", "get_file_ticket"), ("blob", "get_file_ticket_from_path"), ("ticket", "from_file")],
        bounds="no-rebuild tail of handle_rule_node (Blob::get_current_file_state_vec on the blob that is then persisted), 1 target, any pre-state under I1/I3; unwind 4",
        kind="step"),
    "step_tail_2t": dict(module="work", functions="step_tail_1t", bounds="as step_tail_1t, 2 targets", kind="step"),
    "step_rebuild_core_1t": dict(
        module="work",
        functions=[("system/mod", "to_command_script"), ("work", "to_command_line_input"), ("blob", "update_to_match_system_file_state"),
                   ("blob", "get_actual_file_state"), ("ticket", "from_file")],
        bounds="command-execution core of rebuild_node in rebuild_node's call order (not rebuild_node itself: out of memory at 45 GB), 1 target, command model succeeds / exits non-zero / fails to spawn / omits a target; unwind 4",
        kind="step"),
    "step_rebuild_core_2t": dict(module="work", functions="step_rebuild_core_1t", bounds="as step_rebuild_core_1t, 2 targets", kind="step"),
}

STEP_STUBS = [
    "Ticket::human_readable -> injective slot character (real base-62 bijection is C15, engine M)",
    "alloc::fmt::format -> '#'+slot character (contract: format!(\"{}/{}\", dir, name) names entry `name` of `dir`; validated natively by lib/validate_stubs)",
    "system::util::get_timestamp -> 1_000_000 * whole-second mtime (real function checked separately)",
    "<Ticket as PartialEq>::eq -> four 64-bit word comparisons (exact)",
    "rust-crypto Sha256 -> ideal hash: digest = (length, bytes) for streams <= 31 bytes (injective; properties are stated modulo SHA-256 collisions)",
    "std::collections::{HashMap,HashSet,BTreeMap,BTreeSet} -> association-list models of the documented contract (kani/src/vstd.rs)",
    "downloader::{download_file,download_string} -> always 'inaccessible' (no download urls)",
]

# property -> tier -> list of harness names
PROPERTIES = {
    "C07": {"quick": ["step_resolve_single_target", "step_resolve_phase_1t"],
            "thorough": ["step_resolve_single_target", "step_resolve_phase_1t", "step_resolve_phase_2t"]},
    "C08": {"quick": ["step_resolve_single_target", "step_resolve_phase_1t", "step_resolve_phase_2t", "step_clean_1t", "step_clean_2t", "step_rebuild_core_1t"],
            "thorough": ["step_resolve_single_target", "step_resolve_phase_1t", "step_resolve_phase_2t", "step_clean_1t", "step_clean_2t", "step_rebuild_core_1t", "step_rebuild_core_2t", "clean_then_build_2t"]},
}
