"""Engine M: a small symbolic executor over rustc's MIR text (-Zunpretty=mir).

Scope: loop-bounded integer kernels whose callees are all in the closed model
table below (ticket::encode62, ticket::decode62, system::util::get_timestamp).
Any statement form, operand form or callee that is not understood raises
Unsupported, which the driver turns into an INCONCLUSIVE verdict: a change to
the source that introduces new constructs is flagged, never guessed at.

Values
  int / char            z3 Int (mathematical; Rust's overflow checks appear in
                        the MIR as explicit assert terminators and are checked)
  bool                  z3 Bool
  BigUint               z3 Int >= 0   (num-bigint is modelled as the integers)
  [T; N]                python list of N values
  &x / &mut x           Ref(key) into the environment
  str                   StrVal (symbolic char sequence, see below)
  String                ("string", [byte values])
  Vec<u8>               VecVal(len, [bytes])
  Option / Result       EnumVal(variant-index expr, {index: payload}) or concrete
  iterators             CharsIter / VecIter with a concrete position

Paths are explored depth first; every branch on a symbolic condition is
pruned with a solver feasibility query; every MIR `assert` (bounds, overflow),
every modelled `unwrap` and every `unreachable` becomes a panic query.
"""
import re
import time

import z3


class Unsupported(Exception):
    pass


class Budget(Exception):
    pass


# --------------------------------------------------------------------------
# MIR text -> blocks
# --------------------------------------------------------------------------

class Fn:
    def __init__(self, name, header, locals_, blocks):
        self.name = name
        self.header = header
        self.locals = locals_      # idx -> type string
        self.blocks = blocks       # 'bbN' -> (stmts[list of str], terminator str, cleanup bool)


def extract_function(text, name):
    """Return the text of `fn <name>(...) ... {` up to its closing brace at column 0."""
    m = re.search(r"^fn (?:[\w:<>]+::)?" + re.escape(name) + r"\(.*$", text, re.M)
    if not m:
        raise Unsupported("function %s not found in MIR dump" % name)
    start = m.start()
    end = text.index("\n}\n", start) + 3
    return text[start:end]


def extract_const(text, name):
    """`const NAME: T = { ... }` body text (for named array constants)."""
    m = re.search(r"^const (?:[\w:]+::)?" + re.escape(name) + r": ([^=]+) = \{$", text, re.M)
    if not m:
        raise Unsupported("constant %s not found in MIR dump" % name)
    end = text.index("\n}\n", m.start()) + 3
    return text[m.start():end]


def split_top(s, sep=","):
    """split on sep at bracket depth 0"""
    out, depth, cur = [], 0, ""
    i = 0
    while i < len(s):
        ch = s[i]
        if ch in "([{<":
            # '<' only counts inside type paths; operands here have no comparison ops in text form
            depth += 1
        elif ch in ")]}>":
            depth -= 1
        if ch == sep and depth == 0:
            out.append(cur.strip())
            cur = ""
        else:
            cur += ch
        i += 1
    if cur.strip():
        out.append(cur.strip())
    return out


def parse_fn(ftext, name):
    lines = ftext.split("\n")
    header = lines[0]
    locals_ = {}
    for pm in re.finditer(r"_(\d+): ([^,)]+(?:\([^)]*\))?[^,)]*)", header[header.index("("):header.rindex("->") if "->" in header else len(header)]):
        locals_[int(pm.group(1))] = pm.group(2).strip()
    blocks = {}
    cur = None
    buf = []
    for ln in lines[1:]:
        s = ln.strip()
        m = re.match(r"let (?:mut )?_(\d+): (.*);$", s)
        if m and cur is None:
            locals_[int(m.group(1))] = m.group(2)
            continue
        m = re.match(r"(bb\d+)( \(cleanup\))?: \{$", s)
        if m:
            cur = m.group(1)
            buf = []
            blocks[cur] = [buf, None, bool(m.group(2))]
            continue
        if cur is not None:
            if s == "}":
                stmts = blocks[cur][0]
                if not stmts:
                    raise Unsupported("empty block %s" % cur)
                blocks[cur][1] = stmts.pop()
                cur = None
                continue
            if s:
                if not s.endswith(";"):
                    raise Unsupported("statement does not end with ';': %r" % s)
                buf.append(s[:-1])
    return Fn(name, header, locals_, blocks)


# --------------------------------------------------------------------------
# values
# --------------------------------------------------------------------------

INT_BITS = {"u8": 8, "u16": 16, "u32": 32, "u64": 64, "u128": 128, "usize": 64,
            "i8": 8, "i16": 16, "i32": 32, "i64": 64, "isize": 64, "char": 32}


class Ref:
    def __init__(self, key):
        self.key = key


class StrVal:
    """A &str: `nchars` chars c[0..] (code points), byte length `blen`."""
    def __init__(self, chars, nchars, blen):
        self.chars, self.nchars, self.blen = chars, nchars, blen


class VecVal:
    def __init__(self, length, items):
        self.length, self.items = length, items


class EnumVal:
    """variant index `tag` (python int or z3 Int); payload per variant index"""
    def __init__(self, ty, tag, payload):
        self.ty, self.tag, self.payload = ty, tag, payload


class CharsIter:
    def __init__(self, s, pos):
        self.s, self.pos = s, pos


class VecIter:
    def __init__(self, v, pos):
        self.v, self.pos = v, pos


class Unit:
    pass


def is_conc(e):
    return isinstance(e, int) or isinstance(e, bool) or z3.is_int_value(e) or z3.is_true(e) or z3.is_false(e)


def conc(e):
    if isinstance(e, bool) or isinstance(e, int):
        return e
    if z3.is_int_value(e):
        return e.as_long()
    if z3.is_true(e):
        return True
    if z3.is_false(e):
        return False
    raise ValueError


def I(v):
    return z3.IntVal(v) if isinstance(v, int) and not isinstance(v, bool) else v


def B(v):
    return z3.BoolVal(v) if isinstance(v, bool) else v


# --------------------------------------------------------------------------
# executor
# --------------------------------------------------------------------------

class Path:
    def __init__(self, env, conds, bb, trace):
        self.env, self.conds, self.bb, self.trace = env, conds, bb, trace


class Result:
    def __init__(self):
        self.returns = []       # (conds, value, trace)
        self.panics = []        # (conds+[cond], message, trace)   -- each still to be checked by the caller
        self.queries = 0
        self.solver_s = 0.0
        self.paths = 0
        self.pruned = 0


class Executor:
    def __init__(self, mirtext, fn, models, max_queries=20000, max_seconds=600, max_block_visits=20000):
        self.text = mirtext
        self.fn = fn
        self.models = models
        self.solver = z3.Solver()
        self.res = Result()
        self.max_queries = max_queries
        self.deadline = time.time() + max_seconds
        self.max_block_visits = max_block_visits
        self.visits = 0
        self.fresh = 0
        self.divcache = {}
        self.const_cache = {}
        self.side = []          # global side constraints (definitions of fresh variables)
        self.merges = {}        # id of a merged-switch variable -> (variable, [(scrutinee value, constant)], scrutinee expr)
        self.selects = {}       # id of a select variable -> (variable, constant table, index expr)
        self.defs = []          # (value variable, byte list) pairs: value = little-endian bytes

    # ---- solver helpers
    def sat(self, conds):
        """True if conds (+ side constraints) satisfiable"""
        cs = [c for c in conds if not (z3.is_true(c))]
        if any(z3.is_false(c) for c in cs):
            return False, None
        self.res.queries += 1
        if self.res.queries > self.max_queries or time.time() > self.deadline:
            raise Budget("query/time budget exhausted")
        t0 = time.time()
        self.solver.push()
        for c in self.side:
            self.solver.add(c)
        for c in cs:
            self.solver.add(c)
        r = self.solver.check()
        model = self.solver.model() if r == z3.sat else None
        self.solver.pop()
        self.res.solver_s += time.time() - t0
        if r == z3.unknown:
            raise Budget("solver returned unknown")
        return r == z3.sat, model

    def newint(self, prefix, lo=None, hi=None):
        self.fresh += 1
        v = z3.Int("%s!%d" % (prefix, self.fresh))
        if lo is not None:
            self.side.append(v >= lo)
        if hi is not None:
            self.side.append(v <= hi)
        return v

    def divmod_const(self, n, d):
        """(q, r) with n = d*q + r, 0 <= r < d  (division lemma, memoised per n)"""
        n = z3.simplify(I(n))
        if is_conc(n):
            return I(conc(n) // d), I(conc(n) % d)
        key = (n.get_id(), d)
        if key not in self.divcache:
            q = self.newint("q", 0)
            r = self.newint("r", 0, d - 1)
            self.side.append(n == d * q + r)
            self.divcache[key] = (q, r, n)
        return self.divcache[key][0], self.divcache[key][1]

    # ---- operand / place evaluation
    def read_place(self, env, p):
        p = p.strip()
        m = re.fullmatch(r"_(\d+)", p)
        if m:
            k = int(m.group(1))
            if k not in env:
                raise Unsupported("read of unassigned local _%d" % k)
            return env[k]
        m = re.fullmatch(r"\(\*(.+)\)", p)
        if m:
            r = self.read_place(env, m.group(1))
            if not isinstance(r, Ref):
                raise Unsupported("deref of non-reference %s" % p)
            return env[r.key]
        m = re.fullmatch(r"\(\((.+) as (\w+)\)\.(\d+): [^)]*(?:\([^)]*\))?[^)]*\)", p)
        if m:
            base = self.read_place(env, m.group(1))
            if not isinstance(base, EnumVal):
                raise Unsupported("downcast of non-enum %s" % p)
            idx = variant_index(base.ty, m.group(2))
            pl = base.payload.get(idx)
            if pl is None:
                raise Unsupported("payload of variant %s not available" % m.group(2))
            return pl[int(m.group(3))]
        m = re.fullmatch(r"\((.+)\.(\d+): .*\)", p)
        if m:
            base = self.read_place(env, m.group(1))
            if isinstance(base, tuple):
                return base[int(m.group(2))]
            raise Unsupported("field of non-tuple %s" % p)
        m = re.fullmatch(r"(.+)\[_(\d+)\]", p)
        if m:
            arr = self.read_place(env, m.group(1))
            idx = env[int(m.group(2))]
            if not isinstance(arr, list):
                raise Unsupported("index into non-array %s" % p)
            return self.select(arr, idx)
        raise Unsupported("place %r" % p)

    def select(self, arr, idx):
        if is_conc(idx):
            return arr[conc(idx)]
        if all(is_conc(a) for a in arr):
            # constant table, symbolic index: a fresh variable defined by the table; the
            # (variable, table, index) triple is kept so that an obligation can reason about the
            # table entry-wise instead of through a 62-deep if-then-else
            vals = [conc(a) for a in arr]
            v = self.newint("sel", min(vals), max(vals))
            e = z3.IntVal(vals[-1])
            for i in range(len(vals) - 2, -1, -1):
                e = z3.If(idx == i, z3.IntVal(vals[i]), e)
            self.side.append(v == e)
            self.selects[v.get_id()] = (v, vals, idx)
            return v
        e = arr[-1]
        for i in range(len(arr) - 2, -1, -1):
            e = z3.If(idx == i, I(arr[i]), I(e))
        return e

    def operand(self, env, o):
        o = o.strip()
        if o.startswith("copy ") or o.startswith("move "):
            return self.read_place(env, o[5:])
        if o.startswith("const "):
            return self.constant(o[6:].strip())
        raise Unsupported("operand %r" % o)

    def constant(self, c):
        if c == "true":
            return z3.BoolVal(True)
        if c == "false":
            return z3.BoolVal(False)
        m = re.fullmatch(r"(-?\d+)_(\w+)", c)
        if m and m.group(2) in INT_BITS:
            return z3.IntVal(int(m.group(1)))
        m = re.fullmatch(r"'(.)'", c)
        if m:
            return z3.IntVal(ord(m.group(1)))
        if c == "()":
            return Unit()
        if c in self.models.named_consts:
            return self.models.named_consts[c](self)
        m = re.fullmatch(r"[\w:]+::(\w+)", c)
        if m:
            # a named constant of the crate: evaluate its MIR body
            if c not in self.const_cache:
                ctext = extract_const(self.text, m.group(1))
                lines = [l.strip() for l in ctext.split("\n")]
                arr = None
                for l in lines:
                    mm = re.fullmatch(r"_0 = \[(.*)\];", l)
                    if mm:
                        arr = [self.constant(x.strip()[6:]) for x in split_top(mm.group(1))]
                if arr is None:
                    raise Unsupported("constant body of %s" % c)
                self.const_cache[c] = arr
            return list(self.const_cache[c])
        raise Unsupported("constant %r" % c)

    def cast_int(self, v, to):
        bits = INT_BITS[to]
        if to.startswith("u") or to == "char":
            # sound for values already inside the source type's range when widening; narrowing wraps
            return v, bits
        return v, bits

    def rvalue(self, env, rv, path):
        rv = rv.strip()
        if rv.startswith("&mut "):
            return self.mkref(env, rv[5:])
        if rv.startswith("&"):
            return self.mkref(env, rv[1:])
        m = re.fullmatch(r"\[(.+); (\d+)\]", rv)
        if m:
            v = self.operand(env, m.group(1))
            return [v for _ in range(int(m.group(2)))]
        m = re.fullmatch(r"\[(.*)\]", rv)
        if m and (rv.startswith("[const") or rv.startswith("[copy") or rv.startswith("[move")):
            return [self.operand(env, x) for x in split_top(m.group(1))]
        m = re.fullmatch(r"(.+) as (.+) \((\w+)(?:\(.*\))?\)", rv)
        if m:
            v = self.operand(env, m.group(1))
            kind, to = m.group(3), m.group(2).strip()
            if kind == "PointerCoercion":
                return v
            if kind == "IntToInt":
                if to not in INT_BITS:
                    raise Unsupported("cast to %s" % to)
                src = self.type_of_operand(m.group(1))
                if src in INT_BITS and INT_BITS[src] <= INT_BITS[to] and src[0] == "u" and to[0] == "u":
                    return v
                if src in INT_BITS and src[0] == "u" and to[0] == "u":
                    q, r = self.divmod_const(v, 2 ** INT_BITS[to])
                    return r
                raise Unsupported("cast %s -> %s" % (src, to))
            raise Unsupported("cast kind %s" % kind)
        m = re.fullmatch(r"discriminant\((.+)\)", rv)
        if m:
            v = self.read_place(env, m.group(1))
            if not isinstance(v, EnumVal):
                raise Unsupported("discriminant of non-enum")
            return I(v.tag)
        m = re.fullmatch(r"(\w+)\((.+)\)", rv)
        if m and m.group(1) in BINOPS:
            a, b = split_top(m.group(2))
            return BINOPS[m.group(1)](self, self.operand(env, a), self.operand(env, b), self.type_of_operand(a))
        m = re.fullmatch(r"Not\((.+)\)", rv)
        if m:
            return z3.Not(B(self.operand(env, m.group(1))))
        if rv.startswith("copy ") or rv.startswith("move ") or rv.startswith("const "):
            return self.operand(env, rv)
        # enum constructors  Path::<..>::Variant(args) / Path::Variant
        m = re.fullmatch(r"([\w:<>\[\]; ,]+)::(\w+)(?:\((.*)\))?", rv)
        if m:
            ty = re.sub(r"::<.*>$", "", m.group(1))
            ty = ty.split("::")[-1]
            idx = variant_index(ty, m.group(2))
            args = [self.operand(env, a) for a in split_top(m.group(3))] if m.group(3) else []
            return EnumVal(ty, idx, {idx: args})
        raise Unsupported("rvalue %r" % rv)

    def type_of_operand(self, o):
        o = o.strip()
        m = re.fullmatch(r"(?:copy|move) _(\d+)", o)
        if m:
            return self.fn.locals.get(int(m.group(1)), "?")
        m = re.fullmatch(r"const -?\d+_(\w+)", o)
        if m:
            return m.group(1)
        m = re.fullmatch(r"(?:copy|move) \(.*: ([\w]+)\)", o)
        if m:
            return m.group(1)
        return "?"

    def mkref(self, env, place):
        place = place.strip()
        m = re.fullmatch(r"_(\d+)", place)
        if m:
            return Ref(int(m.group(1)))
        m = re.fullmatch(r"\(\*_(\d+)\)", place)
        if m:
            r = env[int(m.group(1))]
            if isinstance(r, Ref):
                return r
        raise Unsupported("reference to place %r" % place)

    def assign(self, env, lhs, val):
        lhs = lhs.strip()
        if isinstance(val, z3.ExprRef):
            val = z3.simplify(val)
        m = re.fullmatch(r"_(\d+)", lhs)
        if m:
            env[int(m.group(1))] = val
            return
        m = re.fullmatch(r"_(\d+)\[_(\d+)\]", lhs)
        if m:
            arr = env[int(m.group(1))]
            idx = env[int(m.group(2))]
            if not isinstance(arr, list):
                raise Unsupported("indexed store into non-array")
            if is_conc(idx):
                new = list(arr)
                new[conc(idx)] = val
            else:
                new = [z3.If(idx == i, I(val), I(arr[i])) for i in range(len(arr))]
            env[int(m.group(1))] = new
            return
        m = re.fullmatch(r"\(\*_(\d+)\)", lhs)
        if m:
            r = env[int(m.group(1))]
            if isinstance(r, Ref):
                env[r.key] = val
                return
        raise Unsupported("assignment to %r" % lhs)

    # ---- main loop
    def run(self, env0, conds0):
        stack = [Path(dict(env0), list(conds0), "bb0", [])]
        while stack:
            p = stack.pop()
            self.step_path(p, stack)
        return self.res

    def step_path(self, p, stack):
        env, conds, bb = p.env, p.conds, p.bb
        while True:
            self.visits += 1
            if self.visits > self.max_block_visits:
                raise Budget("block-visit budget exhausted (path explosion?)")
            if bb not in self.fn.blocks:
                raise Unsupported("jump to unknown block %s" % bb)
            stmts, term, cleanup = self.fn.blocks[bb]
            for s in stmts:
                if s.startswith("StorageLive") or s.startswith("StorageDead") or s == "nop" or s.startswith("FakeRead") or s.startswith("PlaceMention"):
                    continue
                m = re.fullmatch(r"(.+?) = (.+)", s)
                if not m:
                    raise Unsupported("statement %r" % s)
                self.assign(env, m.group(1), self.rvalue(env, m.group(2), p))
            # terminator
            t = term
            if t == "return":
                self.res.paths += 1
                self.res.returns.append((list(conds), env.get(0), list(p.trace)))
                return
            if t == "unreachable":
                self.res.panics.append((list(conds), "reached a block rustc marked unreachable", list(p.trace)))
                return
            if t == "resume" or t.startswith("resume"):
                return
            m = re.fullmatch(r"goto -> (bb\d+)", t)
            if m:
                bb = m.group(1)
                continue
            m = re.fullmatch(r"drop\(.+\) -> \[return: (bb\d+), unwind.*\]", t)
            if m:
                bb = m.group(1)
                continue
            m = re.fullmatch(r"assert\((.+?), \"(.*?)\".*\) -> \[success: (bb\d+), unwind.*\]", t)
            if m:
                ctext = m.group(1).strip()
                neg = False
                if ctext.startswith("!"):
                    neg = True
                    ctext = ctext[1:]
                c = B(self.operand(env, ctext))
                if neg:
                    c = z3.Not(c)
                c = z3.simplify(c)
                if not z3.is_true(c):
                    self.res.panics.append((list(conds) + [z3.Not(c)], "panic: " + m.group(2), list(p.trace)))
                    conds = conds + [c]
                bb = m.group(3)
                continue
            m = re.fullmatch(r"switchInt\((.+)\) -> \[(.*)\]", t)
            if m:
                v = self.operand(env, m.group(1))
                arms = []
                other = None
                for a in split_top(m.group(2)):
                    k, tgt = [x.strip() for x in a.split(":")]
                    if k == "otherwise":
                        other = tgt
                    else:
                        arms.append((int(k), tgt))
                if isinstance(v, z3.BoolRef):
                    v = z3.If(v, z3.IntVal(1), z3.IntVal(0))
                v = z3.simplify(I(v))
                if is_conc(v):
                    cv = conc(v)
                    nxt = other
                    for k, tgt in arms:
                        if k == cv:
                            nxt = tgt
                    if nxt is None:
                        raise Unsupported("switchInt without matching arm")
                    bb = nxt
                    continue
                # select-merge: all arms are `_k = const X; goto -> J`
                merged = self.try_merge(arms)
                branches = []
                if merged is not None:
                    k_local, join, table = merged
                    e = None
                    for val, cst in reversed(table):
                        e = cst if e is None else z3.If(v == val, cst, e)
                    vals = [val for val, _ in table]
                    # (the range conjuncts are implied by the disjunction; they are stated so that
                    # linear reasoning about the scrutinee does not need the 62-way case split)
                    cond = z3.And(z3.Or([v == val for val in vals]), v >= min(vals), v <= max(vals))
                    dv = self.newint("m", min(conc(c) for _, c in table), max(conc(c) for _, c in table))
                    self.side.append(dv == e)
                    self.merges[dv.get_id()] = (dv, [(val, conc(c)) for val, c in table], v, cond)
                    env2 = dict(env)
                    env2[k_local] = dv
                    branches.append((cond, join, env2, "merged %d-way select on %s" % (len(table), m.group(1))))
                else:
                    for k, tgt in arms:
                        branches.append((v == k, tgt, None, "%s == %d" % (m.group(1), k)))
                if other is not None:
                    branches.append((z3.And([v != k for k, _ in arms]), other, None, "%s: otherwise" % m.group(1)))
                live = []
                for cond, tgt, e2, note in branches:
                    ok, _ = self.sat(conds + [cond])
                    if ok:
                        live.append((cond, tgt, e2, note))
                    else:
                        self.res.pruned += 1
                if not live:
                    return
                for cond, tgt, e2, note in live[1:]:
                    stack.append(Path(dict(e2 if e2 is not None else env), conds + [cond], tgt, p.trace + [note]))
                cond, tgt, e2, note = live[0]
                if e2 is not None:
                    env = e2
                    p.env = env
                conds = conds + [cond]
                p.trace = p.trace + [note]
                bb = tgt
                continue
            m = re.fullmatch(r"(.+?) = (.+?)\((.*)\) -> \[return: (bb\d+), unwind.*\]", t)
            if m:
                dest, callee, args, nxt = m.group(1), m.group(2).strip(), m.group(3), m.group(4)
                argv = [self.operand(env, a) for a in split_top(args)] if args.strip() else []
                model = self.models.lookup(callee)
                if model is None:
                    raise Unsupported("call to unmodelled function %s" % callee)
                out = model(self, env, conds, argv, p)
                # a model may return (value, extra_conds, panic_cond_or_None)
                val, extra, panic = out
                if panic is not None:
                    pc, msg = panic
                    pc = z3.simplify(B(pc))
                    if not z3.is_false(pc):
                        self.res.panics.append((list(conds) + [pc], msg, list(p.trace)))
                        conds = conds + [z3.Not(pc)]
                conds = conds + list(extra)
                self.assign(env, dest, val)
                bb = nxt
                continue
            raise Unsupported("terminator %r" % t)

    def try_merge(self, arms):
        k_local = None
        join = None
        table = []
        for val, tgt in arms:
            stmts, term, _ = self.fn.blocks.get(tgt, ([], None, False))
            if len(stmts) != 1:
                return None
            m = re.fullmatch(r"_(\d+) = const (-?\d+)_(\w+)", stmts[0])
            g = re.fullmatch(r"goto -> (bb\d+)", term or "")
            if not m or not g:
                return None
            if k_local is None:
                k_local, join = int(m.group(1)), g.group(1)
            elif k_local != int(m.group(1)) or join != g.group(1):
                return None
            table.append((val, z3.IntVal(int(m.group(2)))))
        if len(table) < 4:
            return None
        return k_local, join, table


def ovf(op):
    def f(ex, a, b, ty):
        bits = INT_BITS.get(ty)
        if bits is None or not ty.startswith("u"):
            raise Unsupported("checked arithmetic on type %s" % ty)
        r = op(I(a), I(b))
        return (r, z3.Or(r >= 2 ** bits, r < 0))
    return f


BINOPS = {
    "Lt": lambda ex, a, b, ty: I(a) < I(b),
    "Le": lambda ex, a, b, ty: I(a) <= I(b),
    "Gt": lambda ex, a, b, ty: I(a) > I(b),
    "Ge": lambda ex, a, b, ty: I(a) >= I(b),
    "Eq": lambda ex, a, b, ty: I(a) == I(b),
    "Ne": lambda ex, a, b, ty: I(a) != I(b),
    "AddWithOverflow": ovf(lambda a, b: a + b),
    "SubWithOverflow": ovf(lambda a, b: a - b),
    "MulWithOverflow": ovf(lambda a, b: a * b),
}

VARIANTS = {
    "Option": ["None", "Some"],
    "Result": ["Ok", "Err"],
    "FromHumanReadableError": ["InvalidLength", "Overflow", "InvalidCharacter"],
}


def variant_index(ty, name):
    ty = ty.split("::")[-1]
    for t, vs in VARIANTS.items():
        if ty.startswith(t) and name in vs:
            return vs.index(name)
    for t, vs in VARIANTS.items():
        if name in vs and (name in ("Some", "None", "Ok", "Err")):
            return vs.index(name)
    raise Unsupported("variant %s of %s" % (name, ty))
