#!/bin/bash
# lib/runall.sh [quick|thorough] [property ids...] : the checks of the given (default: all claimed) properties in turn
# (verdicts are shared through work/verdicts and the executors' caches)
TIER=${1:-quick}
shift
cd /verif
PROPS="$@"
if [ -z "$PROPS" ]; then
  PROPS=$(python3 -c "import sys; sys.path.insert(0,'lib'); import registry; print(' '.join(sorted(registry.CLAIMED)))")
fi
for p in $PROPS; do
  echo "=== $p"; ./check $p $TIER 2>&1 | tail -n 14
done
