#!/bin/bash
# lib/runall.sh [quick|thorough] : every claimed property's check in turn (verdicts are shared through work/verdicts)
TIER=${1:-quick}
cd /verif
for p in $(python3 -c "import sys; sys.path.insert(0,'lib'); import registry; print(' '.join(sorted(registry.CLAIMED)))"); do
  echo "=== $p"; ./check $p $TIER 2>&1 | tail -n 14
done
