"""Engine M, second executor: a path-forking interpreter for rustc's MIR text
with a small object memory model, for heap-structured code whose *structure*
(vector lengths, indices, control flow) becomes concrete once a handful of
symbolic comparisons are decided.  Used for the dependency sorter (C12): the
rule names are symbolic integers -- only their equalities and order matter --
and every comparison the code (or the oracle) makes is a solver-checked fork.

Values
  python int / bool           concrete machine integers and booleans
  Sym(z3 Int)                 symbolic integer (immutable, shared between forks)
  Str(code)                   a String / &str: an opaque name, code = int | Sym
  Agg([...])                  struct or tuple (fields by position)
  Enum(type, variant, [...])  enum value with concrete discriminant
  VecV([...]) MapV([[k,v]..]) SetV([...]) BSetV([...sorted])   containers
  Ref(container, key)         reference to a slot of a python list / dict
  BoxCell                     Box<MaybeUninit<[T; 1]>> (the expansion of vec![x])
  IterV                       iterator state (slice iter, drain, range, btree into_iter, enumerate)
Anything not understood raises Unsupported -> the run is INCONCLUSIVE.
"""
import copy
import re
import time

import z3

from mirsym import Unsupported, Budget, extract_function, split_top


class Fork(Exception):
    def __init__(self, cond):
        self.cond = cond


class Infeasible(Exception):
    """the path assumed something that turned out to contradict the run (e.g. a send ordered after a drop that it
    causally precedes): the path is discarded, it stands for no execution"""


class Panic(Exception):
    pass


class Sym:
    __slots__ = ("e",)

    def __init__(self, e):
        self.e = e

    def __deepcopy__(self, memo):
        return self

    def __repr__(self):
        return "Sym(%s)" % self.e


class Str:
    __slots__ = ("code",)

    def __init__(self, code):
        self.code = code

    def __deepcopy__(self, memo):
        return self

    def __repr__(self):
        return "Str(%r)" % (self.code,)


class Agg:
    def __init__(self, f, ty=None):
        self.f = f
        self.ty = ty

    def __repr__(self):
        return "Agg%s%r" % (("<%s>" % self.ty) if self.ty else "", self.f)


class Enum:
    def __init__(self, ty, idx, f):
        self.ty, self.idx, self.f = ty, idx, f

    def __repr__(self):
        return "%s#%d%r" % (self.ty, self.idx, self.f)


class VecV:
    def __init__(self, items):
        self.items = items

    def __repr__(self):
        return "Vec%r" % (self.items,)


class MapV:
    def __init__(self):
        self.items = []         # [key, value] pairs, insertion order (no property reads the order)


class SetV:
    def __init__(self):
        self.items = []


class BSetV:
    def __init__(self):
        self.items = []         # ascending


class Ref:
    __slots__ = ("c", "k")

    def __init__(self, c, k):
        self.c, self.k = c, k

    def get(self):
        return self.c[self.k]

    def set(self, v):
        self.c[self.k] = v


class BoxCell:
    def __init__(self):
        self.cell = [None]


class IterV:
    def __init__(self, kind, src, pos=0, end=None, inner=None):
        self.kind, self.src, self.pos, self.end, self.inner = kind, src, pos, end, inner


class Unit:
    def __deepcopy__(self, memo):
        return self

    def __repr__(self):
        return "()"


UNIT = Unit()
STD_ENUMS = {"Option": ["None", "Some"], "Result": ["Ok", "Err"], "ControlFlow": ["Continue", "Break"]}


def none():
    return Enum("Option", 0, [])


def some(v):
    return Enum("Option", 1, [v])


# --------------------------------------------------------------------------
# crate metadata: enum variants and struct fields, from the sources
# --------------------------------------------------------------------------

def crate_types(src_texts, module_names=None):
    enums, structs = {}, {}
    for ti, text in enumerate(src_texts):
        mod = module_names[ti] if module_names and ti < len(module_names) else None
        text = re.sub(r"/\*.*?\*/", "", text, flags=re.S)
        text = re.sub(r"//[^\n]*", "", text)
        for m in re.finditer(r"\benum\s+(\w+)\s*\{(.*?)\n\s*\}", text, re.S):
            vs = []
            for part in split_top(m.group(2)):
                mm = re.match(r"\s*(\w+)", part)
                if mm:
                    vs.append(mm.group(1))
            enums.setdefault(m.group(1), vs)            # (the first module listed wins the short name)
            if mod:
                enums[mod + "::" + m.group(1)] = vs     # two modules may declare enums of the same name
        for m in re.finditer(r"\bstruct\s+(\w+)(?:<[^>]*>)?\s*\{(.*?)\n\}", text, re.S):
            fs = []
            for part in split_top(m.group(2)):
                mm = re.match(r"\s*(?:pub(?:\([^)]*\))?\s+)?(\w+)\s*:", part)
                if mm:
                    fs.append(mm.group(1))
            structs[m.group(1)] = fs
    return enums, structs


# --------------------------------------------------------------------------
# MIR function container
# --------------------------------------------------------------------------

class Fn:
    def __init__(self, name, nargs, blocks):
        self.name, self.nargs, self.blocks = name, nargs, blocks


def parse_function(ftext, name):
    lines = ftext.split("\n")
    header = lines[0]
    nargs = len(re.findall(r"_\d+: ", header[header.index("("):]))
    blocks = {}
    cur = None
    for ln in lines[1:]:
        s = ln.strip()
        m = re.match(r"(bb\d+)( \(cleanup\))?: \{$", s)
        if m:
            cur = m.group(1)
            blocks[cur] = []
            continue
        if cur is not None:
            if s == "}":
                cur = None
                continue
            if s:
                if not s.endswith(";"):
                    raise Unsupported("statement does not end with ';': %r" % s)
                blocks[cur].append(s[:-1])
    return Fn(name, nargs, {k: (v[:-1], v[-1]) for k, v in blocks.items() if v})


# --------------------------------------------------------------------------
# state
# --------------------------------------------------------------------------

class FrameS:
    def __init__(self, fn, locs, dest, ret_bb, post=None):
        self.fn, self.locs, self.bb, self.dest, self.ret_bb = fn, locs, "bb0", dest, ret_bb
        self.stmts_done = False
        self.post = post        # plain data describing what to do with the return value (see Interp.post_handlers)


class CallMir:
    """returned by a model that needs a crate function / closure interpreted: run `fname` on `args`, then hand the
    result to the post handler named post["kind"] (which may ask for another call or produce the model's value)"""
    def __init__(self, fname, args, post):
        self.fname, self.args, self.post = fname, args, post


class After:
    """returned by a model: store `value` as the call's result, continue after the call, then run fn(interp, state)
    (used to switch to a newly spawned thread's stack)"""
    def __init__(self, value, fn):
        self.value, self.fn = value, fn


class _Block:
    def __deepcopy__(self, memo):
        return self


BLOCK = _Block()        # returned by a model whose caller cannot proceed yet: the call is re-executed when the thread is resumed


class State:
    def __init__(self):
        self.frames = []
        self.pc = []            # z3 conditions
        self.decided = {}       # z3 expr id -> bool
        self.result = None
        self.steps = 0
        self.notes = []


class Interp:
    def __init__(self, mirtext, src_texts, models, fn_index, module_names=None):
        self.text = mirtext
        self.enums, self.structs = crate_types(src_texts, module_names)
        self.src_sort = src_texts[0] if src_texts else ""
        self.module_sources = {}    # module name -> text of the generated copy (line numbers as in the MIR's impl headers)
        self.models = models
        self.fn_index = fn_index            # callee text -> name of a crate function to interpret from its MIR
        self.fn_cache = {}
        self.solver = z3.Solver()
        self.queries = 0
        self.solver_s = 0.0
        self.forks = 0
        self.deadline = None
        self.max_steps = 200000
        self.post_handlers = {}     # kind -> fn(interp, state, post, return_value) -> value | CallMir
        self.drop_hook = None       # fn(interp, state, value) called for every executed drop(place)
        self.modules = ["sort"]     # modules whose functions may be interpreted from their MIR when no model matches
        self.thread_hook = None     # fn(interp, state, return_value) called when a stack runs empty (a thread, or the program, ended)
        self.block_hook = None      # fn(interp, state) called when a model answered BLOCK

    # ---- solver
    def sat(self, conds):
        self.queries += 1
        if self.deadline and time.time() > self.deadline:
            raise Budget("time budget exhausted")
        t0 = time.time()
        self.solver.push()
        for c in conds:
            self.solver.add(c)
        r = self.solver.check()
        self.solver.pop()
        self.solver_s += time.time() - t0
        if r == z3.unknown:
            raise Budget("solver answered unknown")
        return r == z3.sat

    def sat_model(self, st, conds):
        """like sat(); on sat, remembers the model as the state's witness"""
        self.queries += 1
        if self.deadline and time.time() > self.deadline:
            raise Budget("time budget exhausted")
        t0 = time.time()
        self.solver.push()
        for c in conds:
            self.solver.add(c)
        r = self.solver.check()
        if r == z3.sat:
            st.model = self.solver.model()
        self.solver.pop()
        self.solver_s += time.time() - t0
        if r == z3.unknown:
            raise Budget("solver answered unknown")
        return r == z3.sat

    def decide(self, st, cond):
        """concrete truth value of a z3 Bool under the state's path condition; forks if both are possible"""
        if isinstance(cond, bool):
            return cond
        cond = z3.simplify(cond)
        if z3.is_true(cond):
            return True
        if z3.is_false(cond):
            return False
        key = cond.sexpr()          # (z3 AST ids are reused once an expression is collected: not a stable key)
        if key in st.decided:
            return st.decided[key]
        # a model of the path condition (kept per state) settles one side without a query
        m = getattr(st, "model", None)
        mv = None
        if m is not None:
            try:
                ev = m.eval(cond, model_completion=True)
                mv = True if z3.is_true(ev) else (False if z3.is_false(ev) else None)
            except Exception:
                mv = None
        if mv is None:
            t = self.sat_model(st, st.pc + [cond])
            f = self.sat_model(st, st.pc + [z3.Not(cond)]) if t else True
            if not t and not self.sat(st.pc):
                raise Budget("path condition became unsatisfiable")
        elif mv:
            t = True
            f = self.sat(st.pc + [z3.Not(cond)])
        else:
            f = True
            t = self.sat(st.pc + [cond])
        if t and not f:
            st.decided[key] = True
            return True
        if f and not t:
            st.decided[key] = False
            return False
        raise Fork(cond)

    # ---- functions
    def get_fn(self, name):
        if name not in self.fn_cache:
            self.fn_cache[name] = parse_function(extract_fn_text(self.text, name), name)
        return self.fn_cache[name]

    def resolve_crate_fn(self, callee):
        """MIR function for a callee the model list and the index do not know: only a UNIQUE function of one of
        the interpreted modules with that last path segment (and, for methods, that type) qualifies"""
        base = re.sub(r"::<.*?>", "", callee)
        segs = base.split("::")
        last = segs[-1]
        if not re.fullmatch(r"\w+", last):
            return None
        cands = []
        for mod in self.modules:
            cands += re.findall(r"^fn (%s::<impl at [^>]*>::%s)\(" % (re.escape(mod), re.escape(last)), self.text, re.M)
        free = re.findall(r"^fn (%s)\(" % re.escape(last), self.text, re.M)
        if len(segs) == 1:
            return free[0] if len(free) == 1 else None
        if len(cands) == 1:
            return cands[0]
        if len(cands) > 1:
            # several impls have a method of that name: pick by the Self type, read off the impl header line in the source copy
            ty = segs[-2]
            good = []
            for c in cands:
                m = re.search(r"gen/(\w+)\.rs:(\d+):", c)
                if m and self.impl_self_type(m.group(1), int(m.group(2))) == ty:
                    good.append(c)
            if len(good) == 1:
                return good[0]
        return None

    def impl_self_type(self, module, line):
        txt = self.module_sources.get(module)
        if txt is None:
            return None
        lines = txt.split("\n")
        if 0 < line <= len(lines):
            m = re.search(r"impl(?:<[^>]*>)?\s+(?:[\w:<>, ]+\s+for\s+)?(\w+)", lines[line - 1])
            if m:
                return m.group(1)
        return None

    # ---- places
    def place(self, st, s):
        """-> (container, key)"""
        fr = st.frames[-1]
        s = s.strip()
        m = re.fullmatch(r"_(\d+)", s)
        if m:
            return fr.locs, int(m.group(1))
        if s.endswith("]"):
            i = matching_open(s, len(s) - 1, "[", "]")
            base, idx = s[:i], s[i + 1:-1]
            c, k = self.place(st, base)
            v = c[k]
            iv = self.read_operand_val(st, idx if idx.startswith("_") else idx)
            if isinstance(v, VecV):
                v = v.items
            if not isinstance(v, list) or not isinstance(iv, int):
                raise Unsupported("indexing %r" % s)
            if iv >= len(v):
                raise Panic("index out of bounds")
            return v, iv
        if s.startswith("(*") and matching_close(s, 0) == len(s) - 1:
            c, k = self.place(st, s[2:-1])
            v = c[k]
            if isinstance(v, Ref):
                return v.c, v.k
            if isinstance(v, BoxCell):
                return v.cell, 0
            raise Unsupported("deref of %r in %r" % (type(v).__name__, s))
        if s.startswith("(") and matching_close(s, 0) == len(s) - 1:
            inner = s[1:-1]
            j = find_top(inner, " as ")
            if j >= 0 and find_top(inner, ": ") < 0:
                c, k = self.place(st, inner[:j])
                return c, k         # downcast: the variant is checked when a field is projected
            j = find_top(inner, ": ")
            if j < 0:
                raise Unsupported("place %r" % s)
            left = inner[:j]
            d = left.rfind(".")
            base, fld = left[:d], int(left[d + 1:])
            variant = None
            b = base.strip()
            if b.startswith("(") and matching_close(b, 0) == len(b) - 1 and find_top(b[1:-1], " as ") >= 0 and find_top(b[1:-1], ": ") < 0:
                jj = find_top(b[1:-1], " as ")
                variant = b[1:-1][jj + 4:].strip()
                base = b[1:-1][:jj]
            c, k = self.place(st, base)
            v = c[k]
            if isinstance(v, BoxCell):
                return c, k         # Box<..>.0.0 / MaybeUninit projections: identity
            if isinstance(v, Enum):
                if variant is not None:
                    names = self.enum_variants(v.ty)
                    if names[v.idx] != variant:
                        raise Unsupported("downcast to %s of a %s value" % (variant, names[v.idx]))
                return v.f, fld
            if isinstance(v, Agg):
                return v.f, fld
            if v is None and isinstance(c, list) and len(c) == 1:
                return c, k         # uninitialised box cell: MaybeUninit / ManuallyDrop wrappers are identities
            raise Unsupported("field of %r in %r" % (type(v).__name__, s))
        raise Unsupported("place %r" % s)

    def enum_key(self, path):
        """the key of self.enums for a (possibly qualified) type path: module-qualified if known, else the short name"""
        segs = re.sub(r"::<.*$", "", path).split("::")
        if len(segs) >= 2 and "::".join(segs[-2:]) in self.enums:
            return "::".join(segs[-2:])
        return segs[-1]

    def enum_variants(self, ty):
        if ty in self.enums:
            return self.enums[ty]
        ty = ty.split("::")[-1]
        if ty in STD_ENUMS:
            return STD_ENUMS[ty]
        if ty in self.enums:
            return self.enums[ty]
        raise Unsupported("unknown enum %s" % ty)

    # ---- operands / rvalues
    def read_operand_val(self, st, o):
        o = o.strip()
        if o.startswith("no_retag "):
            o = o[9:]
        if o.startswith("copy "):
            c, k = self.place(st, o[5:])
            v = c[k]
            return copy.deepcopy(v) if isinstance(v, (Agg, Enum)) else v
        if o.startswith("move "):
            c, k = self.place(st, o[5:])
            return c[k]
        if o.startswith("const "):
            mp = re.fullmatch(r".*::promoted\[(\d+)\]", o[6:].strip())
            if mp:
                return self.eval_promoted(st, int(mp.group(1)))
            return self.constant(o[6:].strip())
        m = re.fullmatch(r"_(\d+)", o)
        if m:
            return st.frames[-1].locs[int(m.group(1))]
        raise Unsupported("operand %r" % o)

    def eval_promoted(self, st, n):
        """a promoted constant of the function being interpreted: its one-block body is evaluated in a scratch frame"""
        owner = st.frames[-1].fn.name
        head = "\nconst %s::promoted[%d]: " % (owner, n)
        i = self.text.find(head)
        if i < 0:
            raise Unsupported("promoted[%d] of %s not found" % (n, owner))
        end = self.text.index("\n}\n", i)
        body = self.text[i:end]
        mb = re.search(r"bb0: \{\n(.*?)\n\s*return;", body, re.S)
        if not mb or "bb1" in body:
            raise Unsupported("promoted[%d] of %s is not a single block" % (n, owner))
        fr = FrameS(st.frames[-1].fn, {}, None, None)
        st.frames.append(fr)
        try:
            for line in mb.group(1).split("\n"):
                line = re.sub(r"\s*//.*$", "", line).strip()
                if not line or line.startswith("Storage"):
                    continue
                line = line.rstrip(";")
                j = find_top(line, " = ")
                v = self.rvalue(st, line[j + 3:])
                c, k = self.place(st, line[:j])
                c[k] = v
        finally:
            st.frames.pop()
        return fr.locs[0]

    def constant(self, c):
        if c == "true":
            return True
        if c == "false":
            return False
        if c == "()":
            return UNIT
        if c == "RangeFull":
            return UNIT
        m = re.fullmatch(r"(-?\d+)_(\w+)", c)
        if m:
            return int(m.group(1))
        m = re.fullmatch(r"\"(.*)\"", c)
        if m:
            return Str(("lit", m.group(1)))
        if c.startswith("b\""):
            return Str(("bytes", c))
        m = re.fullmatch(r"'(\\?.)'", c)
        if m:
            ch = m.group(1)
            return {"\\n": 10, "\\t": 9, "\\r": 13, "\\\\": 92, "\\'": 39, "\\0": 0}.get(ch, ord(ch[-1]))      # a char constant: its code point
        m = re.fullmatch(r"ZeroSized: (\{closure@[^}]*\})", c)
        if m:
            return Agg([], m.group(1))      # a closure that captures nothing
        if re.fullmatch(r"(?:\w+::)*[A-Z]\w*", c) and c.split("::")[-1] not in self.enums:
            nm = c.split("::")[-1]
            if nm not in self.structs or not self.structs[nm]:
                return Agg([], nm)              # a unit struct (RecvError, RangeFull-like markers)
        m = re.fullmatch(r"(?:\w+::)*(\w+)::(\w+)", c)
        if m and m.group(1) in self.enums and m.group(2) in self.enums[m.group(1)]:
            return Enum(m.group(1), self.enums[m.group(1)].index(m.group(2)), [])      # a unit variant of a crate enum
        raise Unsupported("constant %r" % c)

    def rvalue(self, st, rv):
        rv = rv.strip()
        if rv.startswith("&mut ") or rv.startswith("&raw mut ") or rv.startswith("&raw const "):
            return Ref(*self.place(st, rv.split(" ", 2)[2] if rv.startswith("&raw") else rv[5:]))
        if rv.startswith("&"):
            return Ref(*self.place(st, rv[1:]))
        if rv.startswith("copy ") or rv.startswith("move ") or rv.startswith("const ") or rv.startswith("no_retag "):
            m = re.fullmatch(r"(.+) as (.+) \((\w+)(?:\(.*\))?\)", rv)
            if m:
                v = self.read_operand_val(st, m.group(1))
                if m.group(3) in ("Transmute", "PointerCoercion", "IntToInt", "PtrToPtr"):
                    return v
                raise Unsupported("cast kind %s" % m.group(3))
            return self.read_operand_val(st, rv)
        m = re.fullmatch(r"discriminant\((.+)\)", rv)
        if m:
            c, k = self.place(st, m.group(1))
            v = c[k]
            if not isinstance(v, Enum):
                raise Unsupported("discriminant of %r" % type(v).__name__)
            return v.idx
        m = re.fullmatch(r"(\w+)\((.+)\)", rv)
        if m and m.group(1) in ("Eq", "Ne", "Lt", "Le", "Gt", "Ge", "AddWithOverflow", "SubWithOverflow", "Add", "Sub"):
            a, b = [self.read_operand_val(st, x) for x in split_top(m.group(2))]
            if not (isinstance(a, int) and isinstance(b, int)):
                raise Unsupported("arithmetic on non-concrete integers (%s)" % m.group(1))
            op = m.group(1)
            if op == "Eq":
                return a == b
            if op == "Ne":
                return a != b
            if op == "Lt":
                return a < b
            if op == "Le":
                return a <= b
            if op == "Gt":
                return a > b
            if op == "Ge":
                return a >= b
            if op == "AddWithOverflow":
                return Agg([a + b, a + b >= 2 ** 64])
            if op == "SubWithOverflow":
                return Agg([a - b, a - b < 0])
            if op == "Add":
                return a + b
            return a - b
        m = re.fullmatch(r"PtrMetadata\((.+)\)", rv)
        if m:
            v = self.read_operand_val(st, m.group(1))
            v = v.get() if isinstance(v, Ref) else v
            if isinstance(v, VecV):
                return len(v.items)
            if isinstance(v, list):
                return len(v)
            raise Unsupported("PtrMetadata of %s" % type(v).__name__)        # (the length of a slice reference)
        m = re.fullmatch(r"Not\((.+)\)", rv)
        if m:
            v = self.read_operand_val(st, m.group(1))
            if isinstance(v, bool):
                return not v
            raise Unsupported("Not on non-bool")
        m = re.fullmatch(r"\[(.+); (\d+)\]", rv)
        if m:
            return [self.read_operand_val(st, m.group(1)) for _ in range(int(m.group(2)))]
        if rv.startswith("[") and rv.endswith("]"):
            return [self.read_operand_val(st, x) for x in split_top(rv[1:-1])]
        if rv.startswith("(") and rv.endswith(")") and matching_close(rv, 0) == len(rv) - 1:
            return Agg([self.read_operand_val(st, x) for x in split_top(rv[1:-1])])
        if rv.startswith("{closure@"):
            j = rv.index("} {") + 1 if "} {" in rv else len(rv)
            head = rv[:j]
            vals = []
            if j < len(rv):
                body = rv[j:].strip()
                for part in split_top(body[1:-1].strip()):
                    fn_, op = part.split(": ", 1)
                    vals.append(self.read_operand_val(st, op))
            return Agg(vals, head)
        # struct literal  Name { a: op, ... }
        m = re.fullmatch(r"([\w:<>, ]+?) \{ (.*) \}", rv)
        if m:
            name = re.sub(r"::<.*>$", "", m.group(1)).split("::")[-1]
            vals = []
            for part in split_top(m.group(2)):
                fn_, op = part.split(": ", 1)
                vals.append((fn_.strip(), self.read_operand_val(st, op)))
            if name in self.structs:
                order = self.structs[name]
                d = dict(vals)
                if sorted(order) != sorted(d):
                    raise Unsupported("struct %s fields %s vs declared %s" % (name, sorted(d), order))
                return Agg([d[f] for f in order], name)
            return Agg([v for _, v in vals], name)
        # enum variant / tuple struct  Path::<..>::Variant(args) | Path::Variant
        m = re.fullmatch(r"(.+?)::(\w+)(?:\((.*)\))?", rv)
        if m:
            ty = self.enum_key(m.group(1))
            var = m.group(2)
            args = [self.read_operand_val(st, a) for a in split_top(m.group(3))] if m.group(3) else []
            try:
                names = self.enum_variants(ty)
            except Unsupported:
                return Enum(ty, var, args)      # an enum of another crate (e.g. termcolor::Color): opaque, never switched on
            if var not in names:
                raise Unsupported("variant %s of %s" % (var, ty))
            return Enum(ty, names.index(var), args)
        if re.fullmatch(r"[A-Z]\w*", rv):
            return Enum("(foreign)", rv, [])        # a unit variant of an enum of another crate, printed bare (termcolor::Color)
        raise Unsupported("rvalue %r" % rv)

    # ---- execution
    def call_model(self, st, callee, args):
        for rx, fn, _doc in self.models:
            if rx.fullmatch(callee):
                return fn(self, st, args)
        return NotImplemented

    def step_terminator(self, st):
        fr = st.frames[-1]
        stmts, term = fr.fn.blocks[fr.bb]
        if not fr.stmts_done:
            for s in stmts:
                if s.startswith("StorageLive") or s.startswith("StorageDead") or s == "nop" or s.startswith("FakeRead") or s.startswith("PlaceMention") or s.startswith("Retag"):
                    continue
                j = find_top(s, " = ")
                if j < 0:
                    raise Unsupported("statement %r" % s)
                v = self.rvalue(st, s[j + 3:])
                c, k = self.place(st, s[:j])
                c[k] = v
            fr.stmts_done = True
        t = term
        st.steps += 1
        if st.steps > self.max_steps:
            raise Budget("step budget exhausted on one path")

        def goto(bb):
            fr.bb = bb
            fr.stmts_done = False

        if t == "return":
            rv = fr.locs.get(0, UNIT)
            st.frames.pop()
            if not st.frames:
                if self.thread_hook is not None:
                    self.thread_hook(self, st, rv)
                else:
                    st.result = rv
                return
            caller = st.frames[-1]
            if fr.post is not None:
                out = self.post_handlers[fr.post["kind"]](self, st, fr.post, rv)
                if isinstance(out, CallMir):
                    fn = self.get_fn(out.fname)
                    st.frames.append(FrameS(fn, {i + 1: a for i, a in enumerate(out.args)}, fr.dest, fr.ret_bb, out.post))
                    return
                rv = out
            c, k = self.place(st, fr.dest)
            c[k] = rv
            caller.bb = fr.ret_bb
            caller.stmts_done = False
            return
        if t == "unreachable":
            raise Panic("reached a block rustc marked unreachable")
        m = re.fullmatch(r"goto -> (bb\d+)", t)
        if m:
            return goto(m.group(1))
        m = re.fullmatch(r"drop\((.+)\) -> \[return: (bb\d+), unwind.*\]", t)
        if m:
            if self.drop_hook is not None:
                c, k = self.place(st, m.group(1))
                self.drop_hook(self, st, c[k] if (isinstance(c, dict) and k in c) or (isinstance(c, list) and k < len(c)) else None)
            return goto(m.group(2))
        m = re.fullmatch(r"assert\((.+?), \"(.*?)\".*\) -> \[success: (bb\d+), unwind.*\]", t)
        if m:
            ctext = m.group(1).strip()
            neg = ctext.startswith("!")
            v = self.read_operand_val(st, ctext[1:] if neg else ctext)
            if not isinstance(v, bool):
                raise Unsupported("assert on non-concrete condition")
            if v == neg:
                raise Panic(m.group(2))
            return goto(m.group(3))
        m = re.fullmatch(r"switchInt\((.+)\) -> \[(.*)\]", t)
        if m:
            v = self.read_operand_val(st, m.group(1))
            if isinstance(v, bool):
                v = 1 if v else 0
            if not isinstance(v, int):
                raise Unsupported("switchInt on a non-concrete value")
            nxt = None
            for a in split_top(m.group(2)):
                k, tgt = [x.strip() for x in a.split(":")]
                if k == "otherwise":
                    if nxt is None:
                        nxt = tgt
                elif int(k) == v:
                    nxt = tgt
            if nxt is None:
                raise Unsupported("switchInt without matching arm")
            return goto(nxt)
        mp = re.fullmatch(r"_\d+ = (?:std|core)::(?:rt::panic_fmt|panicking::panic(?:_fmt|_explicit)?|rt::begin_panic::<.*>)\(.*\) -> (?:bb\d+|unwind .*)", t)
        if mp:
            raise Panic("panic!() reached in %s" % fr.fn.name.split("::")[-1])
        j = find_top(t, " = ")
        m = None
        if j >= 0:
            mm = re.fullmatch(r"(.+\)) -> \[return: (bb\d+), unwind.*\]", t[j + 3:])
            if mm:
                calltext = mm.group(1)
                o = matching_open(calltext, len(calltext) - 1, "(", ")")
                if o > 0:
                    m = (calltext[:o].strip(), calltext[o + 1:-1], mm.group(2))
        if m:
            dest, callee, argtext, nxt = t[:j], m[0], m[1], m[2]
            args = [self.read_operand_val(st, a) for a in split_top(argtext)] if argtext.strip() else []
            # crate function with MIR?
            for rx, fname in self.fn_index:
                if rx.fullmatch(callee):
                    fn = self.get_fn(fname)
                    locs = {}
                    for i, a in enumerate(args):
                        locs[i + 1] = a
                    st.frames.append(FrameS(fn, locs, dest, nxt))
                    return
            out = self.call_model(st, callee, args)
            if out is NotImplemented:
                # a function of the crate that the index does not name (e.g. a new helper): interpret its MIR
                fname = self.resolve_crate_fn(callee)
                if fname is not None:
                    fn = self.get_fn(fname)
                    locs = {}
                    for i, a in enumerate(args):
                        locs[i + 1] = a
                    st.frames.append(FrameS(fn, locs, dest, nxt))
                    return
                raise Unsupported("call to unmodelled function %s" % callee)
            if isinstance(out, CallMir):
                fn = self.get_fn(out.fname)
                st.frames.append(FrameS(fn, {i + 1: a for i, a in enumerate(out.args)}, dest, nxt, out.post))
                return
            if out is BLOCK:
                self.block_hook(self, st)
                return
            if isinstance(out, After):
                c, k = self.place(st, dest)
                c[k] = out.value
                goto(nxt)
                out.fn(self, st)
                return
            c, k = self.place(st, dest)
            c[k] = out
            return goto(nxt)
        raise Unsupported("terminator %r" % t)

    def explore(self, make_state, finish, budget_s=600, max_paths=200000):
        """make_state() -> initial State; finish(interp, state) is called for every completed path and may
        itself call decide() (forking the finished state).  Returns statistics."""
        self.deadline = time.time() + budget_s
        work = [make_state()]
        paths = 0
        panics = []
        while work:
            st = work.pop()
            try:
                while st.frames:
                    try:
                        self.step_terminator(st)
                    except Unsupported as u:
                        fr = st.frames[-1]
                        raise Unsupported("%s [in %s %s: %s]" % (u, fr.fn.name.split("::")[-1], fr.bb, fr.fn.blocks[fr.bb][1][:160]))
                if finish(self, st) == "continue":      # (finish pushed another call onto the state: keep running it)
                    work.append(st)
                    continue
                paths += 1
                if paths > max_paths:
                    raise Budget("path budget exhausted")
            except Fork as f:
                self.forks += 1
                m = getattr(st, "model", None)
                st.model = None
                st2 = copy.deepcopy(st)
                if m is not None:
                    try:
                        side = z3.is_true(m.eval(f.cond, model_completion=True))
                        (st if side else st2).model = m
                    except Exception:
                        pass
                st.pc = st.pc + [f.cond]
                st.decided[f.cond.sexpr()] = True
                st2.pc = st2.pc + [z3.Not(f.cond)]
                st2.decided[f.cond.sexpr()] = False
                work.append(st)
                work.append(st2)
            except Infeasible:
                self.pruned = getattr(self, "pruned", 0) + 1
            except Panic as p:
                panics.append((list(st.pc), str(p)))
                paths += 1
        return paths, panics


def extract_fn_text(text, name):
    i = text.find("\nfn " + name + "(")
    if i < 0:
        raise Unsupported("function %s not found in MIR dump" % name)
    end = text.index("\n}\n", i) + 3
    return text[i + 1:end]


def matching_close(s, i):
    depth = 0
    for j in range(i, len(s)):
        if s[j] in "([":
            depth += 1
        elif s[j] in ")]":
            depth -= 1
            if depth == 0:
                return j
    return -1


def matching_open(s, i, o, c):
    depth = 0
    for j in range(i, -1, -1):
        if s[j] == c:
            depth += 1
        elif s[j] == o:
            depth -= 1
            if depth == 0:
                return j
    return -1


def find_top(s, sub):
    depth = 0
    i = 0
    while i < len(s):
        ch = s[i]
        if ch in "([{":
            depth += 1
        elif ch in ")]}":
            depth -= 1
        elif ch == "<" and i > 0 and (s[i - 1].isalnum() or s[i - 1] in ":>"):
            depth += 1
        elif ch == ">" and i > 0 and s[i - 1] != "-" and depth > 0:
            depth -= 1
        if depth == 0 and s.startswith(sub, i):
            return i
        i += 1
    return -1
