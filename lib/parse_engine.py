"""Engine M for the rules-file parser (C14): the MIR of rule::parse, rule::parse_all and of bundle.rs
(PathBundle::parse_lines, parse_recusrive_helper, add_to_nodes, NumberedIndentedLine::new,
get_empty_line_indices, get_path_strings*) is interpreted (lib/mirint.py) on SYMBOLIC lines.

A line is any string; it decomposes uniquely into  tab^lvl . rest  where rest is empty or starts
with a non-tab character.  The parser observes of a line exactly: whether it equals "" or ":",
its number of leading tabs, and `rest` through equality, order (BTreeMap keys) and concatenation.
So a line is the pair of z3 integers (lvl_i, nm_i): lvl_i in 0..MAXLVL, nm_i = -1 for an empty rest,
0 for the rest ":", >= 1 for any other rest (equal integers <=> equal text, integer order = any total
order of the texts).  Every comparison the code or the oracle makes is a solver-decided fork, so one
run of n lines covers every file of n lines (within the level bound).

Obligations
  P  rule::parse on a file of n lines, PathBundle by contract: the state machine, the sections handed
     to the bundle parser, the command lines, error kinds and 1-based line numbers, no panic
  B  PathBundle::parse_lines + get_path_strings on a section of m lines: error kind and line number,
     the set of paths (every entry exactly once), bundle order, independence of the order of siblings
  A  parse_all: rules of several files concatenated in order, the first error returned
"""
import copy
import itertools
import json
import os
import re
import sys
import time

import z3

sys.path.insert(0, "/verif/lib")
import gen
import mirint
from mirint import (Infeasible, Interp, State, FrameS, CallMir, Sym, Str, Agg, Enum, VecV, MapV, SetV, Ref, BoxCell, IterV, UNIT, none, some,
                    Unsupported, Budget, Panic, Fork)
import sort_engine
import proto_engine
from proto_engine import Tk, lit, deref

VERIF = "/verif"
WORK = os.path.join(VERIF, "work")
MAXLVL = 3
SRC_FILES = ["rule.rs", "bundle.rs"]


def lvl(i):
    return z3.Int("lvl_%d" % i)


def nm(i):
    return z3.Int("nm_%d" % i)


def line_constraints(n):
    c = []
    for i in range(n):
        c += [lvl(i) >= 0, lvl(i) <= MAXLVL, nm(i) >= -1]
    return c


class LineClass:
    """the oracle's view of a line, decided with the same forks"""
    def __init__(self, I, st, i):
        self.i = i
        self.empty = I.decide(st, z3.And(lvl(i) == 0, nm(i) == -1))
        self.colon = (not self.empty) and I.decide(st, z3.And(lvl(i) == 0, nm(i) == 0))


def str_eq(I, st, a, b):
    a, b = deref(a), deref(b)
    ca, cb = a.code, b.code
    if ca[0] == "lit" and cb[0] == "lit":
        return ca[1] == cb[1]
    if ca[0] == "lit":
        ca, cb = cb, ca
    if ca[0] == "line" and cb[0] == "lit":
        i = ca[1]
        if cb[1] == "":
            return I.decide(st, z3.And(lvl(i) == 0, nm(i) == -1))
        if cb[1] == ":":
            return I.decide(st, z3.And(lvl(i) == 0, nm(i) == 0))
        raise Unsupported("comparison of a line with the literal %r" % cb[1])
    if ca[0] == "line" and cb[0] == "line":
        return I.decide(st, z3.And(lvl(ca[1]) == lvl(cb[1]), nm(ca[1]) == nm(cb[1])))
    if ca[0] == "rest" and cb[0] == "rest":
        return I.decide(st, nm(ca[1]) == nm(cb[1]))
    raise Unsupported("comparison of strings %r and %r" % (ca, cb))


def name_lt(I, st, a, b):
    a, b = deref(a), deref(b)
    if a.code[0] == "rest" and b.code[0] == "rest":
        return I.decide(st, nm(a.code[1]) < nm(b.code[1]))
    raise Unsupported("ordering of strings %r and %r" % (a.code, b.code))


# --------------------------------------------------------------------------
# models
# --------------------------------------------------------------------------

def build_models(opts):
    M, used = sort_engine.build_models()
    extra = []

    def add(rx, fn, doc):
        def wrapped(I, st, a, fn=fn, doc=doc):
            used.add(doc)
            return fn(I, st, a)
        extra.append((re.compile(rx), wrapped, doc))

    n = opts["n"]

    def split(I, st, a):
        s = deref(a[0])
        if not (isinstance(s, Str) and s.code[0] == "content") or a[1] != 10:
            raise Unsupported("split of %r on %r" % (s, a[1]))
        return IterV("list", [Str(("line", i)) for i in range(s.code[1], s.code[1] + s.code[2])])
    add(r"core::str::<impl str>::split::<char>", split, "str::split('\\n'): the file IS its list of lines (a text of k newlines has k+1 lines)")

    def collect_list(I, st, a):
        it = a[0]
        if isinstance(it, IterV) and it.kind == "list":
            return VecV(list(it.src[it.pos:]))
        raise Unsupported("collect of iterator kind %s" % getattr(it, "kind", type(it).__name__))
    add(r"<std::str::Split<'_, char> as Iterator>::collect::<Vec<&str>>", collect_list, "Split::collect::<Vec<&str>>")
    add(r"<str as PartialEq>::eq", lambda I, st, a: str_eq(I, st, a[0], a[1]), "str == str on lines / literals: decided on (lvl, rest)")
    add(r"<str as PartialEq>::ne", lambda I, st, a: not str_eq(I, st, a[0], a[1]), "str != str")
    add(r"<&str as PartialEq>::eq", lambda I, st, a: str_eq(I, st, deref(a[0]), deref(a[1])), "&str == &str")
    add(r"<std::string::String as PartialEq(<.*>)?>::eq", lambda I, st, a: str_eq(I, st, deref(a[0]), deref(a[1])), "String == String / &str")
    add(r"<std::string::String as PartialEq(<.*>)?>::ne", lambda I, st, a: not str_eq(I, st, deref(a[0]), deref(a[1])), "String != String / &str")
    add(r"<str as ToString>::to_string", lambda I, st, a: deref(a[0]), "str::to_string")
    add(r"<str as ToOwned>::to_owned", lambda I, st, a: deref(a[0]), "str::to_owned")
    add(r"<std::string::String as Deref>::deref", lambda I, st, a: a[0], "String::deref")
    add(r"std::string::String::as_str", lambda I, st, a: a[0], "String::as_str")
    add(r"<std::string::String as Clone>::clone", lambda I, st, a: deref(a[0]), "String::clone")

    if opts["obligation"] == "P":
        def parse_lines(I, st, a):
            ids = tuple(x.code[1] for x in a[0].items)
            ok = I.decide(st, z3.Bool("bundle_ok_%s" % "_".join(map(str, ids))))
            if ok:
                return Enum("Result", 0, [Tk(("bundle", ids))])
            return Enum("Result", 1, [Tk(("bundle_error", ids))])
        add(r"PathBundle::parse_lines", parse_lines, "PathBundle::parse_lines by contract: Ok(bundle of exactly these lines) or an error, chosen by the solver (obligation B decides the real one)")
        add(r"PathBundle::get_path_strings", lambda I, st, a: Tk(("paths", deref(a[0]).v[1], a[1])), "PathBundle::get_path_strings by contract (obligation B)")
        add(r"Rule::new", lambda I, st, a: Agg([a[0], a[1], a[2]], "Rule"), "Rule::new records its arguments (sorting / identity are C13's)")
    else:
        add_bundle_models(add, opts)
    proto_engine.add_generic_models(add)        # (after the specific ones: the first matching model wins)
    return extra + M, used


def add_bundle_models(add, opts):
    # --- characters of a line: lvl tabs, then the rest (whose first character is not a tab)
    def chars(I, st, a):
        s = deref(a[0])
        if s.code[0] != "line":
            raise Unsupported("chars() of %r" % (s.code,))
        return IterV("chars", s.code[1], pos=0)
    add(r"core::str::<impl str>::chars", chars, "str::chars over tab^lvl . rest")

    def chars_next(I, st, a):
        it = deref(a[0])
        i = it.src
        if it.pos == "rest":
            raise Unsupported("iteration over the characters of a line's rest")
        if I.decide(st, lvl(i) > it.pos):
            it.pos += 1
            return some(9)
        if I.decide(st, nm(i) == -1):
            return none()
        it.pos = "rest"
        return some(0x200000 + i)       # a character that is not a tab (outside the char range: never equal to a literal)
    add(r"<Chars<'_> as Iterator>::next", chars_next, "Chars::next: a tab while leading tabs remain, then the first character of the rest, None at the end")

    def chars_collect(I, st, a):
        it = a[0]
        if it.pos != "rest":
            raise Unsupported("collect of a Chars iterator that is not just past the first character of the rest")
        return Str(("tail", it.src))
    add(r"<Chars<'_> as Iterator>::collect::<std::string::String>", chars_collect, "Chars::collect: the remainder of the rest")

    def char_to_string(I, st, a):
        c = deref(a[0])
        if isinstance(c, int) and c >= 0x200000:
            return Str(("head", c - 0x200000))
        if c == 47:
            return Str(("lit", "/"))
        raise Unsupported("char::to_string of %r" % (c,))
    add(r"<char as ToString>::to_string", char_to_string, "char::to_string")

    def str_add(I, st, a):
        x, y = deref(a[0]), deref(a[1])
        if x.code[0] == "head" and y.code[0] == "tail" and x.code[1] == y.code[1]:
            return Str(("rest", x.code[1]))         # first character + remainder = the rest of the line
        px = x.code[1] if x.code[0] == "cat" else ((x.code,) if x.code != ("lit", "") else ())
        py = y.code[1] if y.code[0] == "cat" else ((y.code,) if y.code != ("lit", "") else ())
        for p in px + py:
            if p[0] not in ("rest", "lit"):
                raise Unsupported("concatenation with %r" % (p,))
        return Str(("cat", px + py))
    add(r"<std::string::String as Add<&str>>::add", str_add, "String + &str: concatenation as a sequence of rests and literals")

    def chars_any(I, st, a):
        # used as  line.chars().any(|c| c != '\t'): true iff the rest is not empty.  The closure is interpreted
        # on the two kinds of character a line can hold to make sure that is what it computes.
        it = a[0]
        raise Unsupported("Chars::any is handled by the driver")
    # Chars::any(closure): run the closure on a tab and on a non-tab; if it is 'is not a tab' the answer is 'rest not empty'
    def chars_any2(I, st, a):
        it, clo = deref(a[0]), a[1]
        loc = re.search(r"\{closure@([^}]*)\}", clo.ty).group(1)
        fname = I.closure_fns.get(loc)
        cell = [clo]
        return CallMir(fname, [Ref(cell, 0), 9], {"kind": "any_tab", "fname": fname, "cell": cell, "line": it.src})
    add(r"<Chars<'_> as Iterator>::any::<.*>", chars_any2, "Chars::any(pred): pred is evaluated on a tab and on a non-tab character; then decided on (lvl, rest)")

    # --- BTreeMap<String, V> keyed by rests: entries kept in key order, comparisons are forks
    def bt_new(I, st, a):
        return MapV()
    add(r"std::collections::BTreeMap::<std::string::String, .*>::new", bt_new, "BTreeMap::new")

    def bt_get(I, st, a):
        m, k = deref(a[0]), deref(a[1])
        for ent in m.items:
            if str_eq(I, st, ent[0], k):
                return some(Ref(ent, 1))
        return none()
    add(r"std::collections::BTreeMap::<std::string::String, .*>::get::<.*>", bt_get, "BTreeMap::get: the entry with an equal key")

    def bt_insert(I, st, a):
        m, k, v = deref(a[0]), a[1], a[2]
        pos = len(m.items)
        for i, ent in enumerate(m.items):
            if str_eq(I, st, ent[0], k):
                old = ent[1]
                ent[1] = v
                return some(old)
            if name_lt(I, st, k, ent[0]):
                pos = i
                break
        m.items.insert(pos, [k, v])
        return none()
    add(r"std::collections::BTreeMap::<std::string::String, .*>::insert", bt_insert, "BTreeMap::insert keeps the entries in key order")

    def bt_into_iter(I, st, a):
        return IterV("list", [Agg([e[0], e[1]]) for e in a[0].items])
    add(r"<std::collections::BTreeMap<std::string::String, .*> as IntoIterator>::into_iter", bt_into_iter, "BTreeMap::into_iter in key order")

    def slice_range(I, st, a):
        v = deref(a[0])
        items = v.items if isinstance(v, VecV) else v
        r = a[1]
        lo, hi = r.f[0], r.f[1]
        if not (isinstance(lo, int) and isinstance(hi, int)) or lo > hi or hi > len(items):
            raise Panic("slice index out of range")
        return Ref([VecV(items[lo:hi])], 0)
    add(r"<\[NumberedIndentedLine\] as (std::ops::)?Index<(std::ops::)?Range<usize>>>::index", slice_range, "slice[a..b] (bounds-checked; read-only view)")
    add(r"<Vec<NumberedIndentedLine> as Deref>::deref", lambda I, st, a: a[0], "Vec as slice")
    add(r"<Vec<&str> as Deref>::deref", lambda I, st, a: a[0], "Vec as slice")

    # --- derived comparisons of PathNodeType (Leaf / Parent(bundle)): structural, names by solver
    def node_eq(I, st, x, y):
        x, y = deref(x), deref(y)
        if isinstance(x, Str):
            return str_eq(I, st, x, y)
        if isinstance(x, Enum):
            return x.idx == y.idx and all(node_eq(I, st, p, q) for p, q in zip(x.f, y.f))
        if isinstance(x, Agg):
            return len(x.f) == len(y.f) and all(node_eq(I, st, p, q) for p, q in zip(x.f, y.f))
        if isinstance(x, VecV):
            return len(x.items) == len(y.items) and all(node_eq(I, st, p, q) for p, q in zip(x.items, y.items))
        if isinstance(x, (int, bool)):
            return x == y
        raise Unsupported("comparison of %s" % type(x).__name__)
    add(r"<PathNodeType as PartialEq>::ne", lambda I, st, a: not node_eq(I, st, a[0], a[1]), "derived PartialEq of PathNodeType (structural; names compared by the solver)")
    add(r"<PathNodeType as PartialEq>::eq", lambda I, st, a: node_eq(I, st, a[0], a[1]), "derived PartialEq of PathNodeType")

    # --- iterator pipelines with closures:  base.enumerate()?.filter(f)?.map(g)?.collect()
    def it_filter(I, st, a):
        return IterV("filter", None, inner=a[0], end=a[1])
    add(r"<.* as Iterator>::filter::<.*>", it_filter, "Iterator::filter (lazy)")

    def it_map(I, st, a):
        return IterV("map", None, inner=a[0], end=a[1])
    add(r"<.* as Iterator>::map::<.*>", it_map, "Iterator::map (lazy)")

    def base_items(it):
        if isinstance(it, IterV) and it.kind == "list":
            return list(it.src[it.pos:])
        if isinstance(it, IterV) and it.kind == "slice":
            return [Ref(it.src.items, i) for i in range(it.pos, len(it.src.items))]
        if isinstance(it, IterV) and it.kind == "enum":
            inner = it.inner
            return [Agg([i, Ref(inner.src.items, i)]) for i in range(inner.pos, len(inner.src.items))]
        raise Unsupported("pipeline over iterator kind %s" % getattr(it, "kind", type(it).__name__))

    def pipeline_collect(I, st, a):
        it = a[0]
        stages = []
        while isinstance(it, IterV) and it.kind in ("map", "filter"):
            clo = it.end
            loc = re.search(r"\{closure@([^}]*)\}", clo.ty).group(1)
            fname = I.closure_fns.get(loc)
            if fname is None:
                raise Unsupported("closure %s has no MIR body" % loc)
            stages.insert(0, (it.kind, fname, [clo]))
            it = it.inner
        post = {"kind": "pipe", "stages": stages, "items": base_items(it), "out": [], "i": 0, "s": 0, "cur": None}
        return pipe_step(I, st, post)
    add(r"<(std::iter::)?(Map|Filter)<.*> as Iterator>::collect::<.*>", pipeline_collect, "Iterator::collect over enumerate / filter(closure) / map(closure) pipelines: each closure is interpreted per element")


def pipe_step(I, st, post):
    """advance the pipeline until a closure has to be called (-> CallMir) or it is exhausted (-> the Vec)"""
    while True:
        if post["cur"] is None:
            if post["i"] >= len(post["items"]):
                return VecV(post["out"])
            post["cur"] = post["items"][post["i"]]
            post["i"] += 1
            post["s"] = 0
        if post["s"] >= len(post["stages"]):
            post["out"].append(post["cur"])
            post["cur"] = None
            continue
        kind, fname, cell = post["stages"][post["s"]]
        arg = Ref([post["cur"]], 0) if kind == "filter" else post["cur"]
        return CallMir(fname, [Ref(cell, 0), arg], post)


def post_handlers():
    H = dict(proto_engine.post_handlers())

    def any_tab(I, st, post, rv):
        if rv is not False:
            raise Unsupported("the predicate given to Chars::any accepts a tab")
        return CallMir(post["fname"], [Ref(post["cell"], 0), 0x200000 + post["line"]], {"kind": "any_other", "line": post["line"]})

    def any_other(I, st, post, rv):
        if rv is not True:
            raise Unsupported("the predicate given to Chars::any rejects a non-tab character")
        return I.decide(st, nm(post["line"]) != -1)
    def pipe(I, st, post, rv):
        kind = post["stages"][post["s"]][0]
        if kind == "filter":
            if rv is True:
                post["s"] += 1
            elif rv is False:
                post["cur"] = None
            else:
                raise Unsupported("filter predicate returned a non-boolean")
        else:
            post["cur"] = rv
            post["s"] += 1
        return pipe_step(I, st, post)
    H["pipe"] = pipe
    H["any_tab"] = any_tab
    H["any_other"] = any_other
    return H


# --------------------------------------------------------------------------
# obligation P: the state machine of rule::parse
# --------------------------------------------------------------------------

def oracle_P(I, st, n):
    """reference reading of the documented format on decided line classes -> ('ok', rules) | ('err', kind, line)
    rules: [(target line ids, source line ids, command line ids)]"""
    rules = []
    t, s, c = [], [], []
    mode = 0
    for i in range(n):
        k = LineClass(I, st, i)         # (decided when the reference gets there: lines after an error are never looked at)
        ln = i + 1
        if mode == 0:
            if k.empty:
                continue
            if k.colon:
                return ("err", "UnexpectedExtraColon", ln)
            mode = 1
            t.append(i)
        else:
            if k.empty:
                return ("err", "UnexpectedEmptyLine", ln)
            if k.colon:
                mode += 1
                if mode == 4:
                    rules.append((tuple(t), tuple(s), tuple(c)))
                    t, s, c = [], [], []
                    mode = 0
            else:
                (t if mode == 1 else s if mode == 2 else c).append(i)
    if mode == 0:
        return ("ok", rules)
    return ("err", ["", "UnexpectedEndOfFileMidTargets", "UnexpectedEndOfFileMidSources", "UnexpectedEndOfFileMidCommand"][mode], n + 1)


def judge_P(I, st, n, failures, describe):
    res = st.result
    pe = I.enum_variants("rule::ParseError")
    want = oracle_P(I, st, n)
    bundles_bad = [str(c) for c in st.pc if str(c).startswith("Not(bundle_ok_")]

    def fail(what, detail):
        failures.append({"tag": "C14", "what": what, "detail": detail, "lines": describe(st), "vals": model_values(st.pc, n), "oracle": repr(want), "result": sort_engine.short(res)[:300]})
    if res.idx == 1:
        kind = pe[res.f[0].idx]
        if kind == "BundleError":
            # the (modelled) bundle parser refused a section: the state machine has to pass that on, with the file name
            if want[0] != "ok" and not bundles_bad:
                fail("a bundle error was reported although no section was refused", kind)
            if not (isinstance(res.f[0].f[0], Str) and res.f[0].f[0].code == ("file",)):
                fail("the error does not name the file", kind)
            return
        if want[0] == "ok":
            return fail("a well-formed file was rejected", "%s at line %s" % (kind, res.f[0].f[1] if len(res.f[0].f) > 1 else "?"))
        if bundles_bad:
            return      # a section closed before the offending line was refused first: either report is 'the matching error'
        if kind != want[1]:
            return fail("a malformed file was rejected with the wrong error kind", "%s instead of %s" % (kind, want[1]))
        if res.f[0].f[1] != want[2]:
            return fail("the error names the wrong line", "%s: line %s instead of %s" % (kind, res.f[0].f[1], want[2]))
        if not (isinstance(res.f[0].f[0], Str) and res.f[0].f[0].code == ("file",)):
            return fail("the error does not name the file", kind)
        return
    if want[0] != "ok":
        return fail("a malformed file was accepted", "%s expected at line %s" % (want[1], want[2]))
    got = []
    for r in res.f[0].items:
        tt, ss, cc = r.f
        if not (isinstance(tt, Tk) and tt.v[0] == "paths" and isinstance(ss, Tk) and ss.v[0] == "paths"):
            return fail("a rule was made from something other than the paths of its two bundles", "")
        if tt.v[2] != 47 or ss.v[2] != 47:
            return fail("paths are not joined with '/'", "")
        got.append((tt.v[1], ss.v[1], tuple(x.code[1] for x in cc.items)))
    if got != list(want[1]):
        fail("the rules read are not the rules written (sections / command lines / order)", "got %r, written %r" % (got, want[1]))


def run_P(I_factory, n, stats, failures, budget_s):
    I = I_factory({"obligation": "P", "n": n})
    fn = I.get_fn("parse")

    def make_state():
        st = State()
        st.pc = line_constraints(n)
        st.frames.append(FrameS(fn, {1: Str(("file",)), 2: Str(("content", 0, n))}, None, None))
        return st

    def describe(st):
        s = z3.Solver()
        for c in st.pc:
            s.add(c)
        s.check()
        m = s.model()
        out = []
        for i in range(n):
            l = m.eval(lvl(i), model_completion=True).as_long()
            k = m.eval(nm(i), model_completion=True).as_long()
            out.append("\t" * l + ("" if k == -1 else ":" if k == 0 else "n%d" % k))
        return out

    def finish(I_, st):
        if len(I.samples) < 60 or (hash(len(st.pc) * 7919 + I_.forks) % 17 == 0 and len(I.samples) < 200):
            I.samples.append(model_values(st.pc, n))
        judge_P(I_, st, n, failures, describe)
        if len(failures) > 6:
            del failures[6:]
    try:
        paths, panics = I.explore(make_state, finish, budget_s=budget_s)
    finally:
        stats["queries"] += I.queries
        stats["solver_s"] += I.solver_s
        stats["forks"] += I.forks
    stats["paths"] += paths
    for pc, msg in panics:
        failures.append({"tag": "C14", "what": "the parser panics", "detail": msg, "lines": [], "vals": model_values(pc, n), "oracle": "", "result": "panic"})
    return I


# --------------------------------------------------------------------------
# obligation B: PathBundle::parse_lines + get_path_strings on one section
# --------------------------------------------------------------------------

class RefErr(Exception):
    def __init__(self, kind, args):
        self.kind, self.args_ = kind, args


def oracle_B(I, st, m):
    """reference reading of a section of m lines -> ('ok', [path terms in canonical order]) | ('err', kind, args)
    path term = tuple of line ids whose rests are joined with '/'."""
    ids = list(range(m))
    if ids and I.decide(st, z3.And(lvl(ids[-1]) == 0, nm(ids[-1]) == -1)):
        ids.pop()                                   # one trailing empty line is not part of the section
    empties = [k for k, i in enumerate(ids) if I.decide(st, nm(i) == -1)]
    if empties:
        return ("err", "ContainsEmptyLines", empties)
    level = {}
    for i in ids:
        l = 0
        while I.decide(st, lvl(i) > l):
            l += 1
        level[i] = l

    def same(x, y):
        """two parsed entries are the same entry: both plain files, or both directories with the same content"""
        if (x[1] is None) != (y[1] is None):
            return False
        if x[1] is None:
            return True
        if len(x[1]) != len(y[1]):
            return False
        return all(I.decide(st, nm(p[0]) == nm(q[0])) and same(p, q) for p, q in zip(x[1], y[1]))

    def block(lv, seq, pos):
        """seq: ids of a block whose entries sit at indent lv -> entries [(head id, None | [entries])] in name order"""
        if not seq:
            raise RefErr("Empty", [])
        if level[seq[0]] != lv:
            raise RefErr("WrongIndent", [pos[seq[0]]])
        entries = []
        k = 0
        while k < len(seq):
            j = k + 1
            while j < len(seq) and level[seq[j]] > lv:
                j += 1
            head = seq[k]
            node = (head, block(lv + 1, seq[k + 1:j], pos) if j > k + 1 else None)
            placed = False
            for e_i, e in enumerate(entries):
                if I.decide(st, nm(e[0]) == nm(head)):
                    if not same(e, node):
                        raise RefErr("Contradiction", [pos[e[0]], pos[head]])
                    placed = True           # a repeated entry is merged into the first
                    break
                if I.decide(st, nm(head) < nm(e[0])):
                    entries.insert(e_i, node)
                    placed = True
                    break
            if not placed:
                entries.append(node)
            k = j
        return entries

    pos = {i: k for k, i in enumerate(ids)}
    try:
        tree = block(0, ids, pos)
    except RefErr as e:
        return ("err", e.kind, e.args_)

    def paths(entries, prefix):
        out = []
        for head, kids in entries:
            if kids is None:
                out.append(prefix + (head,))
            else:
                out += paths(kids, prefix + (head,))
        return out
    return ("ok", paths(tree, ()))


def term_of(I, st, s_):
    """a path string produced by the code -> tuple of line ids (rests joined by '/'), or None"""
    c = deref(s_).code
    parts = c[1] if c[0] == "cat" else (c,)
    out = []
    expect_name = True
    for p in parts:
        if expect_name:
            if p[0] != "rest":
                return None
            out.append(p[1])
        elif p != ("lit", "/"):
            return None
        expect_name = not expect_name
    return tuple(out) if not expect_name else None


def judge_B(I, st, m, failures, describe):
    res1 = st.bundle_result
    be = I.enum_variants("bundle::ParseError")
    want = oracle_B(I, st, m)

    def fail(what, detail):
        failures.append({"tag": "C14", "what": what, "detail": detail, "lines": describe(st), "vals": model_values(st.pc, m), "oracle": repr(want), "result": sort_engine.short(res1)[:300]})
    if res1.idx == 1:
        kind = be[res1.f[0].idx]
        args = [x.items if isinstance(x, VecV) else x for x in res1.f[0].f]
        args = args[0] if kind == "ContainsEmptyLines" else args
        if want[0] == "ok":
            return fail("a well-formed section was rejected", "%s%r" % (kind, args))
        if kind != want[1]:
            return fail("a malformed section was rejected with the wrong error kind", "%s%r instead of %s%r" % (kind, args, want[1], want[2]))
        if list(args) != list(want[2]):
            return fail("the error names the wrong line(s)", "%s%r instead of %r" % (kind, args, want[2]))
        return
    if want[0] != "ok":
        return fail("a malformed section was accepted", "%s%r expected" % (want[1], want[2]))
    got = []
    for x in st.result.items:
        t = term_of(I, st, x)
        if t is None:
            return fail("a path is not the '/'-joined chain of its directory names and its file name", repr(deref(x).code))
        got.append(t)
    exp = want[1]

    def same_path(p, q):
        return len(p) == len(q) and all(I.decide(st, nm(a_) == nm(b_)) for a_, b_ in zip(p, q))
    if len(got) != len(exp) or not all(same_path(p, q) for p, q in zip(got, exp)):
        fail("the paths read are not the paths written (each entry once, merged repeats, canonical order)", "got %r, expected %r" % (got, exp))


def run_B(I_factory, m, stats, failures, budget_s):
    I = I_factory({"obligation": "B", "n": m})
    f1 = I.get_fn(I.resolve_crate_fn("PathBundle::parse_lines"))
    f2 = I.get_fn(I.resolve_crate_fn("PathBundle::get_path_strings"))

    def make_state():
        st = State()
        st.pc = line_constraints(m)
        st.phase = 1
        st.frames.append(FrameS(f1, {1: VecV([Str(("line", i)) for i in range(m)])}, None, None))
        return st

    def describe(st):
        s = z3.Solver()
        for c in st.pc:
            s.add(c)
        s.check()
        mo = s.model()
        out = []
        for i in range(m):
            l = mo.eval(lvl(i), model_completion=True).as_long()
            k = mo.eval(nm(i), model_completion=True).as_long()
            out.append("\t" * l + ("" if k == -1 else ":" if k == 0 else "n%d" % k))
        return out

    def finish(I_, st):
        if st.phase == 1:
            st.bundle_result = st.result
            st.phase = 2
            if st.result.idx == 0:
                cell = [st.result.f[0]]
                st.frames.append(FrameS(f2, {1: Ref(cell, 0), 2: 47}, None, None))
                return "continue"
        if len(I.samples) < 60 or (hash(len(st.pc) * 7919 + I_.forks) % 17 == 0 and len(I.samples) < 200):
            I.samples.append(model_values(st.pc, m))
        judge_B(I_, st, m, failures, describe)
        if len(failures) > 6:
            del failures[6:]
    try:
        paths, panics = I.explore(make_state, finish, budget_s=budget_s)
    finally:
        stats["queries"] += I.queries
        stats["solver_s"] += I.solver_s
        stats["forks"] += I.forks
    stats["paths"] += paths
    for pc, msg in panics:
        failures.append({"tag": "C14", "what": "the bundle parser panics", "detail": msg, "lines": [], "vals": model_values(pc, m), "oracle": "", "result": "panic"})
    return I


def make_factory(mir, src_texts, module_sources):
    def f(opts):
        M, used = build_models(opts)
        I = Interp(mir, src_texts, M, [], module_names=["rule", "bundle"])
        I.modules = ["rule", "bundle"]
        I.module_sources = module_sources
        I.closure_fns = proto_engine.closure_index(mir)
        I.post_handlers = post_handlers()
        I.max_steps = 400000
        I.used = used
        I.samples = []
        return I
    return f


# --------------------------------------------------------------------------
# concrete rendering, native confirmation, check
# --------------------------------------------------------------------------

class ConcreteI:
    """the oracle's decider on concrete values (lvl_i, nm_i given)"""
    def __init__(self, vals):
        self.vals = vals

    def decide(self, st, cond):
        if isinstance(cond, bool):
            return cond
        sub = [(z3.Int(k), z3.IntVal(v)) for k, v in self.vals.items()]
        r = z3.simplify(z3.substitute(cond, *sub))
        if z3.is_true(r):
            return True
        if z3.is_false(r):
            return False
        raise Unsupported("condition not closed under the concrete values: %s" % r)


def model_values(pc, n):
    s = z3.Solver()
    for c in pc:
        s.add(c)
    # pairwise relations not mentioned in the path condition are left to the solver: any choice is a member of the path's class
    s.check()
    m = s.model()
    vals = {}
    for i in range(n):
        vals["lvl_%d" % i] = m.eval(lvl(i), model_completion=True).as_long()
        vals["nm_%d" % i] = m.eval(nm(i), model_completion=True).as_long()
    return vals


def render(vals, n):
    """concrete lines: names keep the order of their integers (and ':' is below every other name)"""
    ks = sorted(set(vals["nm_%d" % i] for i in range(n) if vals["nm_%d" % i] >= 1))
    name = {k: "n%03d" % r for r, k in enumerate(ks)}
    out = []
    for i in range(n):
        k = vals["nm_%d" % i]
        out.append("\t" * vals["lvl_%d" % i] + ("" if k == -1 else ":" if k == 0 else name[k]))
    return out


def rest_text(line):
    return line.lstrip("\t")


def expected_native(kind, vals, n, lines):
    """what the real parser has to answer on the concrete lines, from the reference oracles"""
    C = ConcreteI(vals)
    if kind == "B":
        w = oracle_B(C, None, n)
        if w[0] == "ok":
            return {"ok": ["/".join(rest_text(lines[i]) for i in p) for p in w[1]]}
        return {"err": w[1], "args": list(w[2])}
    w = oracle_P(C, None, n)
    if w[0] == "err":
        # a section refused by the bundle parser before the offending line is reported first
        first_bad = first_bundle_error(vals, w, n, lines)
        if first_bad is not None:
            return first_bad
        return {"err": w[1], "file": "the.rules", "line": w[2]}
    rules = []
    for t, s_, c in w[1]:
        for sec in (t, s_):
            b = section_oracle(vals, sec)
            if b[0] == "err":
                return {"err": "BundleError", "file": "the.rules", "bundle": {"err": b[1], "args": list(b[2])}}
        rules.append({"targets": sorted("/".join(rest_text(lines[i]) for i in p) for p in section_oracle(vals, t)[1]),
                      "sources": sorted("/".join(rest_text(lines[i]) for i in p) for p in section_oracle(vals, s_)[1]),
                      "command": [lines[i] for i in c]})
    return {"ok": rules}


def section_oracle(vals, ids):
    """oracle_B on the sub-list `ids` of the file's lines (re-indexed 0..), paths mapped back to file line ids"""
    sub = {}
    for k, i in enumerate(ids):
        sub["lvl_%d" % k] = vals["lvl_%d" % i]
        sub["nm_%d" % k] = vals["nm_%d" % i]
    w = oracle_B(ConcreteI(sub), None, len(ids))
    if w[0] == "ok":
        return ("ok", [tuple(ids[k] for k in p) for p in w[1]])
    return w


def first_bundle_error(vals, w, n, lines):
    """sections closed before the state machine's own error are parsed first by the real code"""
    C = ConcreteI(vals)
    # replay the state machine up to the error line, collecting closed rules
    upto = w[2] - 1
    sub = {k: v for k, v in vals.items()}
    w2 = oracle_P_prefix(C, upto)
    for t, s_ in w2:
        for sec in (t, s_):
            b = section_oracle(vals, sec)
            if b[0] == "err":
                return {"err": "BundleError", "file": "the.rules", "bundle": {"err": b[1], "args": list(b[2])}}
    return None


def oracle_P_prefix(C, upto):
    """(targets, sources) of the rules completely closed within the first `upto` lines"""
    rules = []
    t, s_, mode = [], [], 0
    for i in range(upto):
        k = LineClass(C, None, i)
        if mode == 0:
            if k.empty:
                continue
            if k.colon:
                break
            mode = 1
            t.append(i)
        else:
            if k.empty:
                break
            if k.colon:
                mode += 1
                if mode == 4:
                    rules.append((tuple(t), tuple(s_)))
                    t, s_, mode = [], [], 0
            elif mode == 1:
                t.append(i)
            elif mode == 2:
                s_.append(i)
    return rules


def native_run(blocks):
    """blocks: [(kind, lines)] -> list of native results (dicts)"""
    import subprocess
    path = os.path.join(WORK, "parse_cases.txt")
    esc = lambda l: "\\e" if l == "" else l.replace("\t", "\\t")
    open(path, "w").write("\n---\n".join(kind + "".join("\n" + esc(l) for l in lines) for kind, lines in blocks))
    gen.generate(os.path.join(VERIF, "replay"))
    env = dict(os.environ)
    env["CARGO_NET_OFFLINE"] = "true"
    env["VERIF_PARSE_CASE_TXT"] = path
    p = subprocess.run(["cargo", "test", "--offline", "--quiet", "parse_case_from_env", "--", "--nocapture", "--test-threads", "1"],
                       cwd=os.path.join(VERIF, "replay"), env=env, capture_output=True, text=True, timeout=1500)
    res = [json.loads(x) for x in re.findall(r"PARSE-RESULT (\{.*\})", p.stdout)]
    if len(res) != len(blocks):
        raise RuntimeError("native parser run gave %d results for %d cases: %s" % (len(res), len(blocks), (p.stdout + p.stderr)[-400:]))
    return res


def _worker(args):
    mir_path, ob, n, budget = args
    mir = open(mir_path).read()
    src_texts = [open(os.path.join("/repo/src", f), encoding="utf-8").read() for f in SRC_FILES]
    module_sources = {f[:-3]: open(os.path.join(VERIF, "replay", "gen", f), encoding="utf-8").read() for f in SRC_FILES}
    fac = make_factory(mir, src_texts, module_sources)
    stats = {"queries": 0, "solver_s": 0.0, "forks": 0, "paths": 0}
    failures, note, models, samples = [], None, [], []
    t0 = time.time()
    try:
        I = (run_P if ob == "P" else run_B)(fac, n, stats, failures, budget)
        models = sorted(I.used)
        samples = I.samples
    except Unsupported as e:
        note = "obligation %s, %d lines: construct outside the interpreter's closed list: %s" % (ob, n, e)
    except Budget as e:
        note = "obligation %s, %d lines: %s" % (ob, n, e)
    for f in failures:
        f["ob"], f["n"] = ob, n
    return {"ob": ob, "n": n, "stats": stats, "failures": failures[:4], "note": note, "wall": time.time() - t0, "models": models, "samples": samples}


def bounds(tier):
    return {"P": list(range(1, 10 if tier == "quick" else 13)), "B": list(range(1, 5 if tier == "quick" else 6))}


def check(pid, tier, seed):
    import multiprocessing
    import findings
    import mir_engine
    t0 = time.time()
    mir, err, meta, mir_s = mir_engine.dump_mir()
    inconclusive, lines_out, reported, known_hits = [], [], [], []
    stats = {"queries": 0, "solver_s": 0.0, "forks": 0, "paths": 0}
    per, failures, models, val_samples = [], [], set(), []
    if mir is None:
        inconclusive.append("MIR dump failed: " + err[-300:])
    else:
        b = bounds(tier)
        tasks = [(os.path.join(WORK, "mir_dump.txt"), ob, n, 900 if tier == "quick" else 3000) for ob in ("B", "P") for n in reversed(b[ob])]
        with multiprocessing.Pool(int(os.environ.get("VERIF_JOBS_M", "14"))) as pool:
            for r in pool.imap_unordered(_worker, tasks):
                for k in stats:
                    stats[k] += r["stats"][k]
                models |= set(r["models"])
                per.append({"obligation": r["ob"], "lines": r["n"], "paths": r["stats"]["paths"], "queries": r["stats"]["queries"], "wall_s": round(r["wall"], 1)})
                failures += r["failures"]
                val_samples += [(r["ob"], r["n"], v) for v in r["samples"]]
                if r["note"]:
                    inconclusive.append(r["note"])
    # translator validation: a sample of the explored classes, rendered as text, through the real parser
    validated = 0
    if val_samples and not failures:
        try:
            blocks = [(ob, render(v, n)) for ob, n, v in val_samples]
            nat = native_run(blocks)
            for (ob, n, v), (_, conc), r_ in zip(val_samples, blocks, nat):
                validated += 1
                exp = expected_native(ob, v, n, conc)
                if r_ != exp:
                    inconclusive.append("translator validation: on %r the real parser answers %s, the reference %s, but the executor saw no difference" % (conc, json.dumps(r_)[:200], json.dumps(exp)[:200]))
                    break
        except Exception as e:
            inconclusive.append("translator validation could not run: %s" % e)
    known = findings.load()
    exit_code = 0
    replayed = 0
    os.makedirs(os.path.join(VERIF, "replays"), exist_ok=True)
    seen = set()
    for k, f in enumerate(failures):
        role = "parser: " + f["what"]
        if role in seen:
            continue
        seen.add(role)
        n = f["n"]
        vals = f["vals"]
        conc = render(vals, n)
        try:
            nat = native_run([(f["ob"], conc)])[0]
            exp = expected_native(f["ob"], vals, n, conc)
        except Exception as e:
            inconclusive.append("native run for a counterexample failed: %s" % e)
            continue
        replayed += 1
        rep = nat != exp
        path = os.path.join(VERIF, "replays", "%s_M_%d.json" % (pid, k))
        json.dump({"property": pid, "engine": "M/parser", "obligation": f["ob"], "what": f["what"], "detail": f["detail"], "lines": conc,
                   "native": nat, "reference": exp, "reproduced": rep, "role": role}, open(path, "w"), indent=1)
        if rep:
            kf = findings.match(known, pid, {"role": role})
            if kf:
                known_hits.append(kf)
                lines_out.append("KNOWN-FINDING: property=%s %s" % (pid, kf["what"]))
            else:
                lines_out.append("VIOLATION property=%s replay=%s" % (pid, path))
                reported.append({"what": f["what"], "replay": path})
                exit_code = 1
        else:
            inconclusive.append("solver counterexample (%s: %s) did not reproduce natively on %r" % (f["what"], f["detail"], conc))
    if exit_code == 0 and inconclusive:
        exit_code = 2
    funcs = []
    for mod, fn_ in (("rule", "parse"), ("rule", "parse_all"), ("bundle", "parse_lines"), ("bundle", "parse_recusrive_helper"), ("bundle", "add_to_nodes"),
                     ("bundle", "new"), ("bundle", "get_empty_line_indices"), ("bundle", "get_path_strings_with_prefix"), ("bundle", "get_path_strings")):
        span = gen.function_span(mod, fn_)
        funcs.append({"file": "src/%s.rs" % mod, "fn": fn_, "lines": list(span[:2]) if span else None, "sha": span[2] if span else None})
    b = bounds(tier)
    evidence = {
        "property_id": pid, "tier": tier, "seed": seed, "level": "model_checking",
        "coverage": {
            "evaluations": stats["queries"] + stats["paths"],
            "distinct_nontrivial": stats["paths"],
            "rule": "one evaluation = one solver query or one completed path; distinct_nontrivial = completed paths: each is one class of files (which lines are empty / ':' / other, their numbers of leading tabs, the equalities and order among their names) on which the real parser's answer was compared with the reference reading, for ALL texts in the class",
            "samples": sorted(per, key=lambda r: (r["obligation"], r["lines"]))[:12],
            "states": stats["paths"], "transitions": stats["forks"], "traces_validated_against_impl": replayed + validated,
            "translator_validation": "%d explored classes rendered as concrete text and run through the real rule::parse / PathBundle::parse_lines natively: same answer as the reference" % validated,
            "functions_encoded": funcs,
            "encoding": "rustc nightly -Zunpretty=mir of the regenerated copy of /repo/src -> lib/mirint.py interpretation with lines as (leading tabs, rest) pairs of z3 integers -> z3 %s; MIR dump %.1fs" % (z3.get_version_string(), mir_s),
            "bounds": "P: rule::parse on every file of 1..%d lines (bundle parser by contract); B: PathBundle::parse_lines + get_path_strings on every section of 1..%d lines; at most %d leading tabs per line; any line text" % (b["P"][-1], b["B"][-1], MAXLVL),
            "library_models": sorted(models),
            "solver_queries": stats["queries"], "solver_time_s": round(stats["solver_s"], 2),
            "counterexamples_replayed_natively": replayed,
            "known_findings_hit": [k_["id"] for k_ in known_hits],
            "inconclusive": inconclusive,
            "outside_the_claim": "files longer than the bound, deeper indentation; parse_all over several files and read_all_rules_files_to_strings (I/O, UTF-8 decoding); the sorting of the paths inside Rule::new (C13's canonical form); Display of the errors; a name is an atom: relations between a path spelled flat ('a/b') and the same path spelled as a bundle are not seen",
            "exhaustive": False,
        },
        "assumptions": ["a line is used by the parser only through: equality with \"\" and \":\", its leading tabs, and its rest via equality, order and concatenation (any other use is an unmodelled callee => inconclusive)",
                        "std containers / iterators behave as documented (closed model list)", "rustc's MIR is what gets compiled"],
        "wall_s": round(time.time() - t0, 1),
        "violations": len(reported),
    }
    return exit_code, evidence, lines_out, inconclusive, stats


if __name__ == "__main__":
    if len(sys.argv) > 1 and sys.argv[1] in ("P", "B"):
        mir = open(os.environ.get("MIR", os.path.join(WORK, "mir_dump.txt"))).read()
        root = os.environ.get("SRCROOT", "/repo/src")
        gdir = os.environ.get("GENDIR", "/verif/replay/gen")
        src_texts = [open(os.path.join(root, f), encoding="utf-8").read() for f in SRC_FILES]
        module_sources = {f[:-3]: open(os.path.join(gdir, f), encoding="utf-8").read() for f in SRC_FILES}
        fac = make_factory(mir, src_texts, module_sources)
        for n in [int(x) for x in sys.argv[2:]] or [1, 2, 3, 4, 5]:
            stats = {"queries": 0, "solver_s": 0.0, "forks": 0, "paths": 0}
            failures = []
            t0 = time.time()
            try:
                (run_P if sys.argv[1] == "P" else run_B)(fac, n, stats, failures, 600)
            except (Unsupported, Budget) as e:
                print("n", n, "NOTE", e)
            print("n", n, stats, round(time.time() - t0, 1))
            for f in failures[:4]:
                print("  FAIL", json.dumps(f)[:500])
        sys.exit(0)
    pid = sys.argv[1] if len(sys.argv) > 1 else "C14"
    tier = sys.argv[2] if len(sys.argv) > 2 else "quick"
    seed = int(sys.argv[3]) if len(sys.argv) > 3 else 0
    code, ev, lines, inc, stats = check(pid, tier, seed)
    if "--json" in sys.argv:
        json.dump({"exit_code": code, "evidence": ev, "lines": lines, "inconclusive": inc,
                   "summary": [["parser (P, B)", stats["queries"], stats["paths"], round(stats["solver_s"], 1), [l for l in lines][:2]]]},
                  open(sys.argv[sys.argv.index("--json") + 1], "w"), indent=1)
    print("  M/parser: paths=%d forks=%d queries=%d solver=%.1fs" % (stats["paths"], stats["forks"], stats["queries"], stats["solver_s"]))
    for i_ in inc:
        print("INCONCLUSIVE", i_)
    for l in lines:
        print(l)
    print("engine M/parser %s %s: exit %d (%.0fs)" % (pid, tier, code, ev["wall_s"]))
    sys.exit(code)
