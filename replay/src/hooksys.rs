//! HookSystem: ruler's own FakeSystem behind a thin decorator that can
//!   * let a "peer" act on the cache directory before chosen System calls (C06:
//!     the solver's interference schedule, mirrored call for call), and
//!   * freeze the disk after the n-th mutation (C11: kill at that point).
//! With no hooks armed it is a pass-through.

use crate::system::{System, SystemError, CommandScript, CommandLineOutput, fake::FakeSystem, fake::FakeOpenFile};
use std::io::Read;
use std::sync::{Arc, Mutex};
use std::collections::VecDeque;
use std::time::SystemTime;
use std::io::Write;

#[derive(Clone, Debug)]
pub enum Peer
{
    Nothing,
    Add { name : String, bytes : Vec<u8>, mtime_s : u8, exec : bool },
    Remove { name : String },
}

pub struct Hooks
{
    pub cache_prefix : String,
    pub peer : VecDeque<Peer>,          // one entry consumed per interference point while `budget` > 0
    pub budget : u32,
    pub peer_log : Vec<String>,
    pub freeze_after : Option<u32>,     // mutations allowed before the process "dies"
    pub mutations : u32,
    pub dead : bool,
    pub torn_bytes : usize,             // how much of the write that is cut short gets through
    pub calls : Vec<String>,
}

/*  A file handle whose writes count as mutations and can be cut short by the kill. */
#[derive(Debug)]
pub struct HookFile
{
    inner : FakeOpenFile,
    hooks : Arc<Mutex<Hooks>>,
}

impl std::fmt::Debug for Hooks
{
    fn fmt(&self, f : &mut std::fmt::Formatter) -> std::fmt::Result { write!(f, "Hooks") }
}

impl std::io::Read for HookFile
{
    fn read(&mut self, buf : &mut [u8]) -> std::io::Result<usize> { self.inner.read(buf) }
}

impl std::io::Write for HookFile
{
    fn write(&mut self, buf : &[u8]) -> std::io::Result<usize>
    {
        let mut h = self.hooks.lock().unwrap();
        if h.dead { return Err(std::io::Error::from(std::io::ErrorKind::BrokenPipe)); }
        if let Some(n) = h.freeze_after
        {
            if h.mutations >= n
            {
                /*  killed inside this write: a strict prefix reaches the disk */
                h.dead = true;
                let t = std::cmp::min(h.torn_bytes, buf.len().saturating_sub(1));
                drop(h);
                if t > 0 { let _ = self.inner.write(&buf[..t]); }
                return Err(std::io::Error::from(std::io::ErrorKind::BrokenPipe));
            }
        }
        h.mutations += 1;
        h.calls.push(format!("write {} bytes", buf.len()));
        drop(h);
        self.inner.write(buf)
    }
    fn flush(&mut self) -> std::io::Result<()> { self.inner.flush() }
}

#[derive(Clone)]
pub struct HookSystem
{
    pub inner : FakeSystem,
    pub hooks : Arc<Mutex<Hooks>>,
}

impl HookSystem
{
    pub fn new(inner : FakeSystem, cache_prefix : &str) -> HookSystem
    {
        HookSystem { inner, hooks : Arc::new(Mutex::new(Hooks { cache_prefix : cache_prefix.to_string(), peer : VecDeque::new(), budget : 0,
            peer_log : vec![], freeze_after : None, mutations : 0, dead : false, torn_bytes : 0, calls : vec![] })) }
    }

    fn interfere(&self, path : &str)
    {
        let mut h = self.hooks.lock().unwrap();
        if !path.starts_with(&h.cache_prefix) || h.budget == 0 || h.dead { return; }
        let step = match h.peer.pop_front() { Some(s) => s, None => return };
        match step
        {
            Peer::Nothing => {},
            Peer::Add { name, bytes, mtime_s, exec } =>
            {
                h.budget -= 1;
                let mut sys = self.inner.clone();
                sys.time_passes(1_000_000u64 * (mtime_s as u64));
                let mut f = sys.create_file(&name).unwrap();
                f.write_all(&bytes).unwrap();
                sys.set_is_executable(&name, exec).unwrap();
                h.peer_log.push(format!("before a call on {}: a peer backs up a byte-identical file as {}", path, name));
            },
            Peer::Remove { name } =>
            {
                h.budget -= 1;
                let mut sys = self.inner.clone();
                if sys.is_file(&name)
                {
                    sys.remove_file(&name).unwrap();
                    h.peer_log.push(format!("before a call on {}: a peer restores (takes) cache entry {}", path, name));
                }
            },
        }
    }

    /*  true if the mutation may proceed */
    fn admit(&self, what : String) -> bool
    {
        let mut h = self.hooks.lock().unwrap();
        if h.dead { return false; }
        if let Some(n) = h.freeze_after
        {
            if h.mutations >= n { h.dead = true; return false; }
        }
        h.mutations += 1;
        h.calls.push(what);
        true
    }
}

impl System for HookSystem
{
    type File = HookFile;

    fn open(&self, path : &str) -> Result<Self::File, SystemError>
    {
        self.interfere(path);
        self.inner.open(path).map(|f| HookFile { inner : f, hooks : self.hooks.clone() })
    }
    fn create_file(&mut self, path : &str) -> Result<Self::File, SystemError>
    {
        if !self.admit(format!("create_file {}", path)) { return Err(SystemError::Weird); }
        let hooks = self.hooks.clone();
        self.inner.create_file(path).map(|f| HookFile { inner : f, hooks : hooks })
    }
    fn create_dir(&mut self, path : &str) -> Result<(), SystemError>
    {
        if !self.admit(format!("create_dir {}", path)) { return Err(SystemError::Weird); }
        self.inner.create_dir(path)
    }
    fn is_dir(&self, path : &str) -> bool { self.inner.is_dir(path) }
    fn is_file(&self, path : &str) -> bool { self.interfere(path); self.inner.is_file(path) }
    fn remove_file(&mut self, path : &str) -> Result<(), SystemError> { self.inner.remove_file(path) }
    fn remove_dir(&mut self, path : &str) -> Result<(), SystemError> { self.inner.remove_dir(path) }
    fn list_dir(&self, path : &str) -> Result<Vec<String>, SystemError> { self.inner.list_dir(path) }
    fn rename(&mut self, from : &str, to : &str) -> Result<(), SystemError>
    {
        self.interfere(from);
        self.interfere(to);
        if !self.admit(format!("rename {} -> {}", from, to)) { return Err(SystemError::Weird); }
        self.inner.rename(from, to)
    }
    fn get_modified(&self, path : &str) -> Result<SystemTime, SystemError> { self.inner.get_modified(path) }
    fn is_executable(&self, path : &str) -> Result<bool, SystemError> { self.inner.is_executable(path) }
    fn set_is_executable(&mut self, path : &str, executable : bool) -> Result<(), SystemError>
    {
        if !self.admit(format!("chmod {}", path)) { return Err(SystemError::Weird); }
        self.inner.set_is_executable(path, executable)
    }
    fn execute_command(&mut self, command_script : CommandScript) -> Vec<Result<CommandLineOutput, SystemError>>
    {
        if self.hooks.lock().unwrap().dead { return vec![Err(SystemError::Weird)]; }
        self.inner.execute_command(command_script)
    }
}
