//! Native re-execution of a solver counterexample.
//!
//!   VERIF_REPLAY=<script.json> cargo test replay_from_env -- --nocapture
//!
//! The script's sibling `<script>.txt` (written by lib/replay.py) carries
//!     harness=<name>
//!     raw=<comma separated bytes>        the Raw vector the solver chose
//! The pre-state is decoded with the SAME function the Kani harness used
//! (shared/prestate.rs), materialised on ruler's FakeSystem with real SHA-256
//! hashes and real cache/file names, and the ENCLOSING PUBLIC FUNCTION
//! (handle_rule_node / clean_targets / handle_source_only_node) is run from it.
//! Every property clause is then evaluated on the real result and the real
//! file system.  Output: one line  REPLAY-RESULT {json}.

use crate::prestate::{self, PreD, Raw, Clock, NRAW, EMPTY};
use crate::system::{System, fake::FakeSystem};
use crate::system::util::{read_file, write_str_to_file};
use crate::ticket::{Ticket, TicketFactory};
use crate::blob::{Blob, FileState, FileStateVec, FileResolution};
use crate::history::RuleHistory;
use crate::cache::{SysCache, DownloaderCache};
use crate::work::{handle_rule_node, handle_source_only_node, clean_targets, HandleNodeInfo, RuleExt, WorkOption, WorkError, WorkResult};
use std::io::Write;

const CACHE : &str = ".ruler/cache";
const WS : [&str; 3] = ["a", "b", "c"];

pub fn content_bytes(c : u8) -> Vec<u8>
{
    if c == EMPTY { vec![] } else { vec![c] }
}

pub fn hash_bytes(b : &[u8]) -> Ticket
{
    let mut f = TicketFactory::new();
    f.input_bytes(b);
    f.result()
}

pub fn hash_content(c : u8) -> Ticket
{
    hash_bytes(&content_bytes(c))
}

fn write_file_at(root : &FakeSystem, path : &str, bytes : &[u8], mtime_s : u8, exec : bool)
{
    let mut sys = root.clone();
    sys.time_passes(1_000_000u64 * (mtime_s as u64));
    let mut f = sys.create_file(path).unwrap();
    f.write_all(bytes).unwrap();
    sys.set_is_executable(path, exec).unwrap();
}

pub struct Violation
{
    pub properties : Vec<&'static str>,
    pub role : String,
    pub what : String,
}

pub struct World
{
    pub root : FakeSystem,
    pub pre : PreD,
}

#[derive(Clone, PartialEq, Debug)]
pub struct Snap
{
    pub present : bool,
    pub bytes : Vec<u8>,
    pub mtime : u64,
    pub exec : bool,
}

pub fn snap(sys : &FakeSystem, path : &str) -> Snap
{
    if !sys.is_file(path)
    {
        return Snap { present : false, bytes : vec![], mtime : 0, exec : false };
    }
    Snap
    {
        present : true,
        bytes : read_file(sys, path).unwrap(),
        mtime : crate::system::util::get_timestamp(sys.get_modified(path).unwrap()).unwrap(),
        exec : sys.is_executable(path).unwrap(),
    }
}

pub fn build_world(pre : &PreD) -> World
{
    let mut root = FakeSystem::new(0);
    root.create_dir(".ruler").unwrap();
    root.create_dir(CACHE).unwrap();
    root.create_dir(".ruler/history").unwrap();
    for i in 0..3
    {
        if pre.ws[i].present
        {
            write_file_at(&root, WS[i], &content_bytes(pre.ws[i].content), pre.ws[i].mtime, pre.ws[i].exec);
        }
    }
    for k in 0..5
    {
        if pre.cache[k].present
        {
            let name = format!("{}/{}", CACHE, hash_content(k as u8).human_readable());
            write_file_at(&root, &name, &content_bytes(k as u8), pre.cache[k].mtime, pre.cache[k].exec);
        }
    }
    /*  what the deterministic command copies into the targets */
    for i in 0..2
    {
        write_file_at(&root, &format!("g{}", i), &content_bytes(pre.out[i]), 0, false);
    }
    World { root, pre : *pre }
}

pub fn table_state(t : &prestate::TableD) -> FileState
{
    if t.known
    {
        FileState { ticket : hash_content(t.content), timestamp : 1_000_000u64 * (t.mtime as u64), executable : t.exec }
    }
    else
    {
        FileState::empty()
    }
}

pub fn blob_of(pre : &PreD) -> Blob
{
    let paths : Vec<String> = (0..pre.ntargets).map(|i| WS[i].to_string()).collect();
    let mut n = 0;
    Blob::from_paths(paths, |_p| { let s = table_state(&pre.table[n]); n += 1; s })
}

pub fn sources_ticket() -> Ticket
{
    TicketFactory::from_str("the current sources").result()
}

pub fn history_of(pre : &PreD) -> RuleHistory
{
    let mut h = RuleHistory::new();
    let other : Vec<Ticket> = (0..pre.ntargets).map(|_| hash_content(0)).collect();
    h.insert(TicketFactory::from_str("other sources").result(), FileStateVec::from_ticket_vec(other)).unwrap();
    if pre.has_history
    {
        let v : Vec<Ticket> = (0..pre.ntargets).map(|i| hash_content(pre.remembered[i])).collect();
        h.insert(sources_ticket(), FileStateVec::from_ticket_vec(v)).unwrap();
    }
    h
}

/*  set by the replay of a "first script line fails, later lines succeed" counterexample */
pub static mut FIRST_LINE_FAILS : bool = false;

pub fn command_of(pre : &PreD, omit : [bool; 2], fail : bool) -> Vec<String>
{
    let mut v : Vec<String> = vec![];
    if fail && unsafe { FIRST_LINE_FAILS }
    {
        v.push("error".to_string());
    }
    else if fail
    {
        return vec!["error".to_string()];
    }
    for i in 0..pre.ntargets
    {
        if omit[i] { continue; }
        if !v.is_empty() { v.push(";".to_string()); }
        v.push("mycat".to_string());
        v.push(format!("g{}", i));
        v.push(WS[i].to_string());
    }
    if v.is_empty()
    {
        /*  a command that succeeds and writes nothing: mycat of nothing into a scratch file */
        v = vec!["mycat".to_string(), "scratch".to_string()];
    }
    v
}

/*  All (bytes) contents present at the rule's target paths or in the cache. */
pub fn contents_present(sys : &FakeSystem, ntargets : usize) -> Vec<Vec<u8>>
{
    let mut v = vec![];
    for i in 0..ntargets
    {
        if sys.is_file(WS[i]) { v.push(read_file(sys, WS[i]).unwrap()); }
    }
    if let Ok(list) = sys.list_dir(CACHE)
    {
        for p in list
        {
            if sys.is_file(&p) { v.push(read_file(sys, &p).unwrap()); }
        }
    }
    v
}

pub fn cache_misfiled(sys : &FakeSystem) -> Option<String>
{
    if let Ok(list) = sys.list_dir(CACHE)
    {
        for p in list
        {
            if !sys.is_file(&p) { continue; }
            let bytes = read_file(sys, &p).unwrap();
            let want = format!("{}/{}", CACHE, hash_bytes(&bytes).human_readable());
            if p != want
            {
                return Some(format!("cache entry {} holds bytes {:?} whose hash is named {}", p, bytes, want));
            }
        }
    }
    None
}

pub fn must_not_run(pre : &PreD) -> bool
{
    if !pre.has_history { return false; }
    let n = pre.ntargets;
    let mut need = [false; 2];
    for i in 0..n
    {
        let at_target = pre.ws[i].present && pre.ws[i].content == pre.remembered[i];
        if !at_target
        {
            if !pre.cache[pre.remembered[i] as usize].present { return false; }
            need[i] = true;
        }
    }
    if n == 2 && need[0] && need[1] && pre.remembered[0] == pre.remembered[1] { return false; }
    true
}

/*  Checks common to every step on the rule's files: C07, C08, C09. */
pub fn check_monitors(w : &World, before_contents : &Vec<Vec<u8>>, other_before : &Snap, v : &mut Vec<Violation>, site : &str)
{
    let sys = &w.root;
    if let Some(msg) = cache_misfiled(sys)
    {
        v.push(Violation { properties : vec!["C07", "C11"], role : format!("{}: cache entry filed under the hash of other content", site), what : msg });
    }
    let after = contents_present(sys, w.pre.ntargets);
    for c in before_contents.iter()
    {
        if !after.contains(c)
        {
            v.push(Violation { properties : vec!["C08", "C11"], role : format!("{}: content present before is neither at a target nor in the cache", site),
                what : format!("bytes {:?} were at a target path or in the cache before the step and are nowhere after it", c) });
            break;
        }
    }
    if snap(sys, "c") != *other_before
    {
        v.push(Violation { properties : vec!["C09"], role : format!("{}: out-of-scope file changed", site), what : "file c (not a target of the rule) changed".to_string() });
    }
}

/*  I3 for handed-back table entries, natively. */
pub fn check_table(w : &World, blob : &Blob, v : &mut Vec<Violation>, site : &str)
{
    let sys = &w.root;
    let mut all : Vec<String> = WS.iter().map(|s| s.to_string()).collect();
    if let Ok(list) = sys.list_dir(CACHE) { all.extend(list); }
    for info in blob.get_file_infos()
    {
        for p in all.iter()
        {
            let s = snap(sys, p);
            if s.present && s.mtime == info.file_state.timestamp && hash_bytes(&s.bytes) != info.file_state.ticket
            {
                v.push(Violation { properties : vec!["C18", "C07", "C01"], role : format!("{}: table entry pairs an mtime with another file's hash", site),
                    what : format!("table entry for {} = (hash {}, mtime {}) but file {} carries that mtime with different bytes {:?}",
                        info.path, info.file_state.ticket, info.file_state.timestamp, p, s.bytes) });
                return;
            }
        }
    }
}

pub fn run_rule_step(pre : &PreD, omit : [bool; 2], fail : bool, truthful : bool) -> Vec<Violation>
{
    run_rule_step_hooked(pre, omit, fail, truthful, vec![], 0)
}

/*  peer steps: (go, slot k, add, mtime, exec) in the order SymSystem drew them */
pub fn run_rule_step_hooked(pre : &PreD, omit : [bool; 2], fail : bool, truthful : bool, peer : Vec<crate::hooksys::Peer>, budget : u32) -> Vec<Violation>
{
    let w = build_world(pre);
    let mut v = vec![];
    let n = pre.ntargets;
    let before_contents = contents_present(&w.root, n);
    let before : Vec<Snap> = (0..n).map(|i| snap(&w.root, WS[i])).collect();
    let other_before = snap(&w.root, "c");
    let cache_before : Vec<bool> = (0..5).map(|k| pre.cache[k].present).collect();

    let mut base = w.root.clone();
    base.time_passes(1_000_000u64 * (pre.fresh as u64));
    let sys = crate::hooksys::HookSystem::new(base, &format!("{}/", CACHE));
    let interfering = budget > 0;
    {
        let mut h = sys.hooks.lock().unwrap();
        h.peer = peer.into_iter().collect();
        h.budget = budget;
    }
    let mut info = HandleNodeInfo::new(sys.clone());
    info.blob = blob_of(pre);
    let ext = RuleExt
    {
        sources_ticket : sources_ticket(),
        command : command_of(pre, omit, fail),
        rule_history : history_of(pre),
        cache : SysCache::new(sys.clone(), CACHE),
        downloader_cache_opt : Some(DownloaderCache::new(vec![])),
        downloader_rule_history_opt : None,
    };
    let r = handle_rule_node(info, ext);
    let log = w.root.get_command_log();
    let peer_log = sys.hooks.lock().unwrap().peer_log.clone();
    if interfering
    {
        /*  under interference only the schedule-independence clauses are judged */
        let mut v = vec![];
        if let Some(msg) = cache_misfiled(&w.root)
        {
            v.push(Violation { properties : vec!["C07", "C06"], role : "under interference: cache entry filed under the hash of other content".into(), what : msg });
        }
        match &r
        {
            Err(e) if !fail && !omit[0] && !omit[1] =>
            {
                let msg = format!("{}", e);
                let role = if msg.contains("rename a non-existent") { "restore_file: cache entry taken by a peer between is_file and rename" }
                           else { "rule fails under cache interference by a peer" };
                v.push(Violation { properties : vec!["C06"], role : role.into(),
                    what : format!("peer steps {:?}; the rule then fails with: {} (without the peer step, or with it one call earlier, the rule succeeds)", peer_log, msg) });
            },
            Ok(result) =>
            {
                for i in 0..n
                {
                    let s = snap(&w.root, WS[i]);
                    if s.present && result.file_state_vec.get_ticket(i) != hash_bytes(&s.bytes)
                    {
                        v.push(Violation { properties : vec!["C06", "C01"], role : "under interference: hash handed to dependents is not the hash of the target".into(), what : format!("{:?}", peer_log) });
                    }
                    if !s.present
                    {
                        v.push(Violation { properties : vec!["C06", "C01"], role : "under interference: rule succeeded with a missing target".into(), what : format!("{:?}", peer_log) });
                    }
                }
            },
            _ => {},
        }
        return v;
    }
    check_monitors(&w, &before_contents, &other_before, &mut v, "handle_rule_node");
    if log.len() > 1
    {
        v.push(Violation { properties : vec!["C02"], role : "handle_rule_node: command ran more than once".into(), what : format!("{:?}", log) });
    }
    let faulty = fail || omit[0] || (n == 2 && omit[1]);
    let differs : Vec<bool> = (0..n).map(|i| pre.has_history && pre.remembered[i] != pre.out[i]).collect();
    let any_differs = differs.iter().any(|d| *d);
    match r
    {
        Ok(result) =>
        {
            if faulty && log.len() == 1
            {
                v.push(Violation { properties : vec!["C04"], role : "handle_rule_node: failing command taken for a success".into(), what : "command failed or omitted a target but the rule reports success".into() });
            }
            if !faulty
            {
                for i in 0..n
                {
                    let s = snap(&w.root, WS[i]);
                    let want = content_bytes(pre.out[i]);
                    /*  when the record contradicts the command (C17 scenario) and nothing ran, the remembered content is what is expected */
                    let expect = if !truthful && log.is_empty() && pre.has_history { content_bytes(pre.remembered[i]) } else { want };
                    if !(s.present && s.bytes == expect)
                    {
                        v.push(Violation { properties : vec!["C01", "C10"], role : "handle_rule_node: success but a target does not hold the from-scratch output".into(),
                            what : format!("target {} holds {:?} (present={}) but the command produces {:?}", WS[i], s.bytes, s.present, expect) });
                    }
                    if s.present && result.file_state_vec.get_ticket(i) != hash_bytes(&s.bytes)
                    {
                        v.push(Violation { properties : vec!["C01", "C03", "C18"], role : "handle_rule_node: hash handed to dependents is not the hash of the target".into(),
                            what : format!("target {} holds {:?} but ticket {} was returned", WS[i], s.bytes, result.file_state_vec.get_ticket(i)) });
                    }
                }
                if any_differs && log.len() == 1
                {
                    v.push(Violation { properties : vec!["C17"], role : "handle_rule_node: contradiction with the record silently accepted".into(),
                        what : "command output differs from the recorded output for identical sources but the rule succeeded".into() });
                }
                match &result.rule_history
                {
                    Some(h) => match h.get_file_state_vec(&sources_ticket())
                    {
                        Some(e) =>
                        {
                            for i in 0..n
                            {
                                let s = snap(&w.root, WS[i]);
                                if s.present && e.get_ticket(i) != hash_bytes(&s.bytes)
                                {
                                    v.push(Violation { properties : vec!["C01", "C02"], role : "handle_rule_node: history does not record the targets' true hashes".into(),
                                        what : format!("history entry {} for target {} != hash of its bytes", e.get_ticket(i), WS[i]) });
                                }
                            }
                        },
                        None => v.push(Violation { properties : vec!["C02"], role : "handle_rule_node: no history entry for the sources built from".into(), what : "".into() }),
                    },
                    None => v.push(Violation { properties : vec!["C02"], role : "handle_rule_node: finished rule returned no history".into(), what : "".into() }),
                }
                check_table(&w, &result.blob, &mut v, "handle_rule_node");
                if truthful && must_not_run(pre) && !log.is_empty()
                {
                    v.push(Violation { properties : vec!["C02", "C10"], role : "handle_rule_node: command ran although every target was in place or in the cache".into(),
                        what : format!("history has the sources hash, targets/caches suffice, yet the command ran: {:?}", log) });
                }
            }
            match &result.work_option
            {
                WorkOption::CommandExecuted(_) =>
                {
                    if log.len() != 1
                    {
                        v.push(Violation { properties : vec!["C20"], role : "handle_rule_node: 'Built' reported but no command ran".into(), what : "".into() });
                    }
                },
                WorkOption::Resolutions(res) =>
                {
                    if !log.is_empty()
                    {
                        v.push(Violation { properties : vec!["C20"], role : "handle_rule_node: command ran but per-target statuses reported".into(), what : "".into() });
                    }
                    if res.len() != n
                    {
                        v.push(Violation { properties : vec!["C20"], role : "handle_rule_node: not one status per target".into(), what : "".into() });
                    }
                    for i in 0..std::cmp::min(n, res.len())
                    {
                        let s = snap(&w.root, WS[i]);
                        match res[i]
                        {
                            FileResolution::AlreadyCorrect =>
                            {
                                if s != before[i]
                                {
                                    v.push(Violation { properties : vec!["C20", "C02"], role : "handle_rule_node: 'Up-to-date' reported for a target that was touched".into(),
                                        what : format!("target {} before {:?} after {:?}", WS[i], before[i], s) });
                                }
                            },
                            FileResolution::Recovered =>
                            {
                                /*  a restore consumes the cache entry of the remembered content */
                                let k = pre.remembered[i] as usize;
                                if !(pre.has_history && cache_before[k])
                                {
                                    v.push(Violation { properties : vec!["C20"], role : "handle_rule_node: 'Recovered' reported but the cache did not hold the content".into(), what : "".into() });
                                }
                            },
                            FileResolution::Downloaded =>
                                v.push(Violation { properties : vec!["C20"], role : "handle_rule_node: 'Downloaded' with no urls".into(), what : "".into() }),
                            FileResolution::NeedsRebuild =>
                                v.push(Violation { properties : vec!["C20", "C01"], role : "handle_rule_node: finished without running although a target needed a rebuild".into(), what : "".into() }),
                        }
                    }
                },
                WorkOption::SourceOnly => v.push(Violation { properties : vec!["C20"], role : "handle_rule_node: rule reported as source".into(), what : "".into() }),
            }
        },
        Err(WorkError::Contradiction(paths)) =>
        {
            let want : Vec<String> = (0..n).filter(|i| differs[*i]).map(|i| WS[i].to_string()).collect();
            if !any_differs
            {
                v.push(Violation { properties : vec!["C17", "C04"], role : "handle_rule_node: contradiction reported for outputs equal to the record".into(), what : format!("{:?}", paths) });
            }
            else if paths != want
            {
                v.push(Violation { properties : vec!["C17"], role : "handle_rule_node: contradiction does not name exactly the differing targets".into(),
                    what : format!("reported {:?}, differing {:?}", paths, want) });
            }
        },
        Err(e) =>
        {
            if !faulty
            {
                v.push(Violation { properties : vec!["C04", "C10", "C06"], role : "handle_rule_node: rule failed although its command succeeds and nothing is wrong".into(), what : format!("{}", e) });
            }
            else
            {
                let ok = match &e
                {
                    WorkError::CommandExecutedButErrored => fail,
                    WorkError::TargetFileNotGenerated(p) =>
                    {
                        let first = (0..n).find(|i| omit[*i] && !snap(&w.root, WS[*i]).present);
                        !fail && first.map(|i| WS[i]) == Some(p.as_str())
                    },
                    _ => false,
                };
                if !ok
                {
                    v.push(Violation { properties : vec!["C04"], role : "handle_rule_node: failure reported with the wrong kind or naming the wrong target".into(), what : format!("{}", e) });
                }
            }
        },
    }
    v
}

pub fn run_clean_step(pre : &PreD) -> Vec<Violation>
{
    let w = build_world(pre);
    let mut v = vec![];
    let n = pre.ntargets;
    let before_contents = contents_present(&w.root, n);
    let before : Vec<Snap> = (0..n).map(|i| snap(&w.root, WS[i])).collect();
    let other_before = snap(&w.root, "c");
    let mut sys = w.root.clone();
    sys.time_passes(1_000_000u64 * (pre.fresh as u64));
    let mut cache = SysCache::new(sys.clone(), CACHE);
    let r = clean_targets(blob_of(pre), &mut sys, &mut cache);
    check_monitors(&w, &before_contents, &other_before, &mut v, "clean_targets");
    if !w.root.get_command_log().is_empty()
    {
        v.push(Violation { properties : vec!["C10", "C02"], role : "clean_targets: ran a command".into(), what : "".into() });
    }
    match r
    {
        Ok(()) =>
        {
            for i in 0..n
            {
                if w.root.is_file(WS[i])
                {
                    v.push(Violation { properties : vec!["C10"], role : "clean_targets: target still exists after clean".into(), what : WS[i].to_string() });
                }
                if before[i].present
                {
                    let name = format!("{}/{}", CACHE, hash_bytes(&before[i].bytes).human_readable());
                    if !(w.root.is_file(&name) && read_file(&w.root, &name).unwrap() == before[i].bytes)
                    {
                        v.push(Violation { properties : vec!["C10", "C08"], role : "clean_targets: cleaned content not in the cache under its hash".into(), what : name });
                    }
                }
            }
        },
        Err(e) => v.push(Violation { properties : vec!["C10", "C04"], role : "clean_targets: failed although nothing is wrong".into(), what : format!("{}", e) }),
    }
    v
}

pub fn run_clean_then_build(pre : &PreD) -> Vec<Violation>
{
    let w = build_world(pre);
    let mut v = vec![];
    let n = pre.ntargets;
    let before : Vec<Snap> = (0..n).map(|i| snap(&w.root, WS[i])).collect();
    let mut sys = w.root.clone();
    sys.time_passes(1_000_000u64 * (pre.fresh as u64));
    let mut cache = SysCache::new(sys.clone(), CACHE);
    if let Err(e) = clean_targets(blob_of(pre), &mut sys, &mut cache)
    {
        v.push(Violation { properties : vec!["C10"], role : "clean then build: clean failed".into(), what : format!("{}", e) });
        return v;
    }
    let mut info = HandleNodeInfo::new(sys.clone());
    info.blob = blob_of(pre);
    let ext = RuleExt
    {
        sources_ticket : sources_ticket(),
        command : command_of(pre, [false, false], false),
        rule_history : history_of(pre),
        cache : SysCache::new(sys.clone(), CACHE),
        downloader_cache_opt : Some(DownloaderCache::new(vec![])),
        downloader_rule_history_opt : None,
    };
    match handle_rule_node(info, ext)
    {
        Ok(_) =>
        {
            if !w.root.get_command_log().is_empty()
            {
                v.push(Violation { properties : vec!["C10", "C02"], role : "clean then build: a command ran".into(), what : format!("{:?}", w.root.get_command_log()) });
            }
            for i in 0..n
            {
                let s = snap(&w.root, WS[i]);
                if !(s.present && s.bytes == before[i].bytes)
                {
                    v.push(Violation { properties : vec!["C10"], role : "clean then build: target not byte-identical".into(), what : WS[i].to_string() });
                }
                else if s.exec != before[i].exec
                {
                    v.push(Violation { properties : vec!["C10"], role : "clean then build: executable permission lost".into(), what : WS[i].to_string() });
                }
            }
        },
        Err(e) => v.push(Violation { properties : vec!["C10"], role : "clean then build: the build failed".into(), what : format!("{}", e) }),
    }
    if let Some(msg) = cache_misfiled(&w.root)
    {
        v.push(Violation { properties : vec!["C07"], role : "clean then build: cache entry filed under the hash of other content".into(), what : msg });
    }
    v
}

pub fn run_leaf_step(pre : &PreD) -> Vec<Violation>
{
    let w = build_world(pre);
    let mut v = vec![];
    let before = snap(&w.root, "a");
    let sys = w.root.clone();
    let r = handle_source_only_node(sys, blob_of(pre));
    if snap(&w.root, "a") != before || !w.root.get_command_log().is_empty()
    {
        v.push(Violation { properties : vec!["C09"], role : "handle_source_only_node: a source file changed".into(), what : "".into() });
    }
    match r
    {
        Ok(result) =>
        {
            if !before.present
            {
                v.push(Violation { properties : vec!["C04"], role : "handle_source_only_node: missing source not reported".into(), what : "".into() });
            }
            else if result.file_state_vec.get_ticket(0) != hash_bytes(&before.bytes)
            {
                v.push(Violation { properties : vec!["C01", "C03", "C18"], role : "handle_source_only_node: hash of a source is not the hash of its content".into(),
                    what : format!("source holds {:?}, ticket {}", before.bytes, result.file_state_vec.get_ticket(0)) });
            }
        },
        Err(WorkError::FileNotFound(p)) =>
        {
            if before.present || p != "a"
            {
                v.push(Violation { properties : vec!["C04"], role : "handle_source_only_node: wrong file-not-found".into(), what : p });
            }
        },
        Err(e) => v.push(Violation { properties : vec!["C04"], role : "handle_source_only_node: unexpected error".into(), what : format!("{}", e) }),
    }
    v
}

/*  ---- C12: the real sorter on the solver's rule set, judged by the shared oracle ---- */
pub fn run_sort_case(bytes : &[u8], two_target_rule : bool, fixed_n : Option<usize>, fixed_ns : Option<usize>, fixed_targets : bool) -> Vec<Violation>
{
    use crate::sortcase::{self, Expect, NR};
    use crate::rule::Rule;
    use crate::sort::{topological_sort, topological_sort_all, TopologicalSortError, SourceIndex};
    let mut raw = Raw { bytes : [0u8; NRAW], pos : 0 };
    for (i, b) in bytes.iter().enumerate().take(NRAW) { raw.bytes[i] = *b; }
    let c = sortcase::decode_ex(&mut raw, two_target_rule, fixed_n, fixed_ns, fixed_targets);
    let name = |b : u8| -> String { (b as char).to_string() };
    let order = sortcase::input_order(&c);
    let mut rules = vec![];
    for k in 0..NR
    {
        if k < c.n
        {
            let r = &c.rules[order[k]];
            let t : Vec<String> = (0..r.nt).map(|i| name(r.t[i])).collect();
            let s : Vec<String> = (0..r.ns).map(|i| name(r.s[i])).collect();
            rules.push(Rule::new(t, s, vec!["x".to_string()]));
        }
    }
    let shown = format!("{:?} goal {:?}", rules.iter().map(|r| format!("{:?}<-{:?}", r.targets, r.sources)).collect::<Vec<_>>(), c.goal.map(|g| g as char));
    let r = match c.goal
    {
        Some(g) => topological_sort(rules, &name(g)),
        None => topological_sort_all(rules),
    };
    let exp = sortcase::expected(&c);
    let mut v = vec![];
    let mut bad = |role : &str, what : String| v.push(Violation { properties : vec!["C12"], role : role.to_string(), what : what });
    match (&r, exp)
    {
        (Err(TopologicalSortError::TargetInMultipleRules(_)), Expect::DuplicateTarget) => {},
        (Err(TopologicalSortError::TargetMissing(n)), Expect::GoalMissing) =>
        {
            if Some(n.as_bytes()[0]) != c.goal { bad("sorter: 'target missing' does not name the goal", format!("{} -> {:?}", shown, r)); }
        },
        (Err(TopologicalSortError::SelfDependentRule(_)), Expect::Cycle { self_dep : true, .. }) => {},
        (Err(TopologicalSortError::CircularDependence(_)), Expect::Cycle { longer : true, .. }) => {},
        (Err(TopologicalSortError::CircularDependence(cyc)), Expect::Plan { .. }) =>
            bad("sort_once: circular dependence reported for an acyclic rule set", format!("{} is acyclic but the sorter answers CircularDependence({:?})", shown, cyc)),
        (Err(e), exp) => bad("sorter: error kind does not match the rule set", format!("{} -> {:?}, oracle {:?}", shown, e, exp)),
        (Ok(pack), Expect::Plan { in_plan }) =>
        {
            let want = in_plan.iter().filter(|b| **b).count();
            if pack.nodes.len() != want { bad("sorter: plan does not contain exactly the rules in scope", format!("{} -> {} nodes, oracle {}", shown, pack.nodes.len(), want)); }
            let mut seen = [false; NR];
            for (p, node) in pack.nodes.iter().enumerate()
            {
                let ridx = match sortcase::producer(&c, node.targets[0].as_bytes()[0]) { Some(i) => i, None => { bad("sorter: plan entry is no rule", shown.clone()); continue; } };
                if !in_plan[ridx] || seen[ridx] { bad("sorter: plan contains an out-of-scope or repeated rule", shown.clone()); }
                seen[ridx] = true;
                let rule = &c.rules[ridx];
                let mut st : Vec<u8> = (0..rule.nt).map(|i| rule.t[i]).collect(); st.sort();
                let mut ss : Vec<u8> = (0..rule.ns).map(|i| rule.s[i]).collect(); ss.sort();
                if node.targets.iter().map(|t| t.as_bytes()[0]).collect::<Vec<u8>>() != st { bad("sorter: plan entry targets not canonical", shown.clone()); }
                if node.source_indices.len() != ss.len() { bad("sorter: plan entry does not bind every source", shown.clone()); continue; }
                for (q, nm) in ss.iter().enumerate()
                {
                    match (&node.source_indices[q], sortcase::producer(&c, *nm))
                    {
                        (SourceIndex::Pair(i, sub), Some(_)) =>
                        {
                            if !(*i < p && *sub < pack.nodes[*i].targets.len() && pack.nodes[*i].targets[*sub].as_bytes()[0] == *nm)
                            {
                                bad("sorter: source bound to the wrong producer/target or to a later rule", format!("{} -> node {} source {} = Pair({},{})", shown, p, *nm as char, i, sub));
                            }
                        },
                        (SourceIndex::Leaf(l), None) =>
                        {
                            if !(*l < pack.leaves.len() && pack.leaves[*l].as_bytes()[0] == *nm) { bad("sorter: leaf source bound to the wrong leaf", shown.clone()); }
                        },
                        _ => bad("sorter: leaf/rule binding confused", shown.clone()),
                    }
                }
            }
            for l in 1..pack.leaves.len()
            {
                if pack.leaves[l - 1] >= pack.leaves[l] { bad("sorter: leaves not canonical", shown.clone()); }
            }
        },
        (Ok(_), exp) => bad("sorter: invalid rule set accepted", format!("{} accepted, oracle {:?}", shown, exp)),
    }
    v
}

/*  ---- C13: rule identity, natively (real SHA-256) ---- */
fn ident_strings(bytes : &[u8], pos : &mut usize, n : usize) -> Vec<String>
{
    /*  one L = two S; one S = len (usize, 8 bytes LE), two alphabet indices */
    let alpha = [b'a', b'b', b':', b' '];
    let mut out = vec![];
    for q in 0..2
    {
        let len = bytes.get(*pos).cloned().unwrap_or(1) as usize;
        let c0 = alpha[(bytes.get(*pos + 8).cloned().unwrap_or(0) % 4) as usize];
        let c1 = alpha[(bytes.get(*pos + 9).cloned().unwrap_or(0) % 4) as usize];
        *pos += 10;
        if q < n
        {
            let mut s = String::new();
            s.push(c0 as char);
            if len == 2 { s.push(c1 as char); }
            out.push(s);
        }
    }
    out
}

pub fn run_identity_case(harness : &str, bytes : &[u8]) -> Vec<Violation>
{
    use crate::rule::Rule;
    let digits : Vec<usize> = harness.chars().filter(|c| c.is_ascii_digit()).map(|c| c.to_digit(10).unwrap() as usize).collect();
    let mut v = vec![];
    let mut pos = 0;
    if harness.starts_with("canon_") && digits.len() >= 3
    {
        let (t, s, c) = (ident_strings(bytes, &mut pos, digits[0]), ident_strings(bytes, &mut pos, digits[1]), ident_strings(bytes, &mut pos, digits[2]));
        let (mut ts, mut ss) = (t.clone(), s.clone());
        ts.sort();
        ss.sort();
        let a = Rule::new(t.clone(), s.clone(), c.clone()).get_ticket();
        let b = Rule::new(ts, ss, c.clone()).get_ticket();
        if a != b
        {
            v.push(Violation { properties : vec!["C13"], role : "get_ticket: re-ordering target or source lines changes the identity".into(),
                what : format!("targets {:?} sources {:?} command {:?}: identity {} but {} with the lists sorted", t, s, c, a, b) });
        }
    }
    else if digits.len() >= 6
    {
        let t1 = ident_strings(bytes, &mut pos, digits[0]); let s1 = ident_strings(bytes, &mut pos, digits[1]); let c1 = ident_strings(bytes, &mut pos, digits[2]);
        let t2 = ident_strings(bytes, &mut pos, digits[3]); let s2 = ident_strings(bytes, &mut pos, digits[4]); let c2 = ident_strings(bytes, &mut pos, digits[5]);
        let canon = |t : &Vec<String>, s : &Vec<String>| { let (mut a, mut b) = (t.clone(), s.clone()); a.sort(); b.sort(); (a, b) };
        let same_rule = canon(&t1, &s1) == canon(&t2, &s2) && c1 == c2;
        let a = Rule::new(t1.clone(), s1.clone(), c1.clone()).get_ticket();
        let b = Rule::new(t2.clone(), s2.clone(), c2.clone()).get_ticket();
        if same_rule != (a == b)
        {
            v.push(Violation { properties : vec!["C13"], role : if same_rule { "rule identity: two spellings of one rule differ".to_string() } else { "rule identity: two different rules share one identity".to_string() },
                what : format!("rule 1: targets {:?} sources {:?} command {:?}; rule 2: targets {:?} sources {:?} command {:?}; identities {} and {}", t1, s1, c1, t2, s2, c2, a, b) });
        }
    }
    v
}

/*  ---- C17a: the real RuleHistory::insert, natively ---- */
pub fn run_history_insert_case(bytes : &[u8]) -> Vec<Violation>
{
    use crate::history::RuleHistoryInsertError;
    let g = |i : usize| bytes.get(i).cloned().unwrap_or(0);
    let n_old = (g(0) as usize).clamp(1, 3);
    let n_new = (g(8) as usize).clamp(1, 3);
    let old : Vec<u8> = (0..3).map(|i| g(16 + i) % 5).collect();
    let new : Vec<u8> = (0..3).map(|i| g(19 + i) % 5).collect();
    let has_entry = g(22) != 0;
    let key = TicketFactory::from_str("key").result();
    let mut h = RuleHistory::new();
    h.insert(TicketFactory::from_str("other").result(), FileStateVec::from_ticket_vec(vec![hash_content(0)])).unwrap();
    if has_entry
    {
        h.insert(key.clone(), FileStateVec::from_ticket_vec((0..n_old).map(|i| hash_content(old[i])).collect())).unwrap();
    }
    let r = h.insert(key.clone(), FileStateVec::from_ticket_vec((0..n_new).map(|i| hash_content(new[i])).collect()));
    let mut v = vec![];
    let mut bad = |role : &str, what : String| v.push(Violation { properties : vec!["C17"], role : role.to_string(), what });
    let shown = format!("existing entry {:?} (present: {}), inserting {:?}", &old[..n_old], has_entry, &new[..n_new]);
    if has_entry
    {
        let kept = h.get_file_state_vec(&key).map(|e| (0..n_old).all(|i| e.get_ticket(i) == hash_content(old[i]))).unwrap_or(false);
        if !kept { bad("RuleHistory::insert: the earlier record was modified or lost", shown.clone()); }
        if n_old == n_new
        {
            let diff : Vec<usize> = (0..n_new).filter(|i| old[*i] != new[*i]).collect();
            match r
            {
                Ok(()) => if !diff.is_empty() { bad("RuleHistory::insert: differing outputs silently accepted", shown.clone()); },
                Err(RuleHistoryInsertError::Contradiction(idx)) => if idx != diff { bad("RuleHistory::insert: contradiction does not list exactly the differing targets", format!("{} -> {:?}, differing {:?}", shown, idx, diff)); },
                Err(_) => bad("RuleHistory::insert: equal target counts reported as differing", shown.clone()),
            }
        }
        else if !matches!(r, Err(RuleHistoryInsertError::TargetSizesDifferWeird))
        {
            bad("RuleHistory::insert: differing target counts not reported", shown.clone());
        }
    }
    else if r.is_err() || h.get_file_state_vec(&key).map(|e| (0..n_new).all(|i| e.get_ticket(i) == hash_content(new[i]))) != Some(true)
    {
        bad("RuleHistory::insert: recording outputs for new sources failed or recorded other hashes", shown.clone());
    }
    v
}

/*  ---- C11 start-up: directory::init from a partial ruler directory, natively ---- */
pub fn run_init_case(bytes : &[u8]) -> Vec<Violation>
{
    let d = [bytes.get(0).cloned().unwrap_or(0) != 0, bytes.get(1).cloned().unwrap_or(0) != 0, bytes.get(2).cloned().unwrap_or(0) != 0];
    let mut sys = FakeSystem::new(10);
    let names = [".ruler", ".ruler/cache", ".ruler/history"];
    for i in 0..3 { if d[i] && (i == 0 || d[0]) { sys.create_dir(names[i]).unwrap(); } }
    let r = crate::directory::init(&mut sys, ".ruler");
    let mut v = vec![];
    let shown = format!("before start-up: {:?} present = {:?}", names, d);
    match r
    {
        Ok(_) =>
        {
            for n in names.iter()
            {
                if !sys.is_dir(n)
                {
                    v.push(Violation { properties : vec!["C11"], role : "directory::init: start-up succeeds on a partly created ruler directory but leaves a sub-directory missing".into(),
                        what : format!("{}; afterwards {} is still missing (the next build's cache/history writes fail)", shown, n) });
                    break;
                }
            }
        },
        Err(e) => v.push(Violation { properties : vec!["C11"], role : "directory::init: start-up fails on a partly created ruler directory".into(), what : format!("{} -> {}", shown, e) }),
    }
    v
}

/*  ---- C15b: from_file under the solver's short-read pattern, natively (real SHA-256) ---- */
#[derive(Clone)]
pub struct ChunkSys { pub chunks : std::sync::Arc<Vec<Vec<u8>>> }
#[derive(Debug)]
pub struct ChunkFile { chunks : std::sync::Arc<Vec<Vec<u8>>>, next : usize }
impl std::io::Read for ChunkFile
{
    fn read(&mut self, buf : &mut [u8]) -> std::io::Result<usize>
    {
        if self.next >= self.chunks.len() { return Ok(0); }
        let c = &self.chunks[self.next];
        self.next += 1;
        let k = std::cmp::min(c.len(), buf.len());
        buf[..k].copy_from_slice(&c[..k]);
        /*  whatever lies beyond the bytes read is not part of the file */
        for b in buf[k..].iter_mut() { *b = 0xEE; }
        Ok(k)
    }
}
impl std::io::Write for ChunkFile
{
    fn write(&mut self, b : &[u8]) -> std::io::Result<usize> { Ok(b.len()) }
    fn flush(&mut self) -> std::io::Result<()> { Ok(()) }
}
impl System for ChunkSys
{
    type File = ChunkFile;
    fn open(&self, _p : &str) -> Result<Self::File, crate::system::SystemError> { Ok(ChunkFile { chunks : self.chunks.clone(), next : 0 }) }
    fn create_file(&mut self, _p : &str) -> Result<Self::File, crate::system::SystemError> { Err(crate::system::SystemError::NotImplemented) }
    fn create_dir(&mut self, _p : &str) -> Result<(), crate::system::SystemError> { Err(crate::system::SystemError::NotImplemented) }
    fn is_dir(&self, _p : &str) -> bool { false }
    fn is_file(&self, _p : &str) -> bool { true }
    fn remove_file(&mut self, _p : &str) -> Result<(), crate::system::SystemError> { Err(crate::system::SystemError::NotImplemented) }
    fn remove_dir(&mut self, _p : &str) -> Result<(), crate::system::SystemError> { Err(crate::system::SystemError::NotImplemented) }
    fn list_dir(&self, _p : &str) -> Result<Vec<String>, crate::system::SystemError> { Err(crate::system::SystemError::NotImplemented) }
    fn rename(&mut self, _f : &str, _t : &str) -> Result<(), crate::system::SystemError> { Err(crate::system::SystemError::NotImplemented) }
    fn get_modified(&self, _p : &str) -> Result<std::time::SystemTime, crate::system::SystemError> { Err(crate::system::SystemError::NotImplemented) }
    fn is_executable(&self, _p : &str) -> Result<bool, crate::system::SystemError> { Err(crate::system::SystemError::NotImplemented) }
    fn set_is_executable(&mut self, _p : &str, _e : bool) -> Result<(), crate::system::SystemError> { Err(crate::system::SystemError::NotImplemented) }
    fn execute_command(&mut self, _c : crate::system::CommandScript) -> Vec<Result<crate::system::CommandLineOutput, crate::system::SystemError>> { vec![] }
}

pub fn run_file_chunks_case(bytes : &[u8]) -> Vec<Violation>
{
    /*  n(8) j(8) cj(1) exists(1) fail_at(8), then per read: k(8) fill(256) */
    let u = |i : usize| -> usize { let mut x = 0usize; for b in 0..8 { x |= (bytes.get(i + b).cloned().unwrap_or(0) as usize) << (8 * b); } x };
    let n = u(0);
    let j = u(8);
    let cj = bytes.get(16).cloned().unwrap_or(0);
    let mut pos = 26;
    let mut chunks = vec![];
    let mut total = 0usize;
    while total < n && pos + 8 <= bytes.len()
    {
        let k = std::cmp::max(1, std::cmp::min(u(pos), std::cmp::min(256, n - total)));
        let mut c : Vec<u8> = (0..k).map(|i| bytes.get(pos + 8 + i).cloned().unwrap_or(0x55)).collect();
        if j >= total && j - total < k { c[j - total] = cj; }
        chunks.push(c);
        total += k;
        pos += 8 + 256;
    }
    if total < n { chunks.push(vec![0x55; n - total]); }
    let content : Vec<u8> = chunks.iter().flatten().cloned().collect();
    let sys = ChunkSys { chunks : std::sync::Arc::new(chunks.clone()) };
    let mut v = vec![];
    match TicketFactory::from_file(&sys, "p")
    {
        Ok(mut f) =>
        {
            let got = f.result();
            let want = hash_bytes(&content);
            if got != want
            {
                v.push(Violation { properties : vec!["C15"], role : "from_file: the hash of a file read in short chunks is not the hash of its bytes".into(),
                    what : format!("file of {} bytes read in chunks of {:?}: from_file gives {}, SHA-256 of the bytes is {}", content.len(), chunks.iter().map(|c| c.len()).collect::<Vec<_>>(), got, want) });
            }
        },
        Err(e) => v.push(Violation { properties : vec!["C15"], role : "from_file: hashing a readable file failed".into(), what : format!("{}", e) }),
    }
    v
}

/*  ---- C18 coarse clock: a reaching history through the public API ----
    One tick per user action and per ruler invocation.  A two-target rule whose outputs swap
    when its sources are swapped, and a dependent of the second target.  After build / swap /
    build / swap back / build, the third build restores both targets from the cache; the file
    restored into t2 was written in the same tick as the file the table still describes. */
pub fn run_coarse_history() -> Vec<Violation>
{
    use crate::build::{build, BuildParams};
    use crate::printer::EmptyPrinter;
    let rules = "\
t1
t2
:
a
b
:
mycat
a
t1
;
mycat
b
t2
:

d
:
t2
:
mycat
t2
d
:
";
    let run = |erase_table : bool| -> (String, Vec<String>)
    {
        let mut sys = FakeSystem::new(100);
        let tick = |s : &mut FakeSystem| s.time_passes(1_000_000);
        let put = |s : &mut FakeSystem, p : &str, c : &str| { write_str_to_file(s, p, c).unwrap(); };
        put(&mut sys, "build.rules", rules); tick(&mut sys);
        put(&mut sys, "a", "X\n"); tick(&mut sys);
        put(&mut sys, "b", "Y\n"); tick(&mut sys);
        let mut verdicts = vec![];
        let mut go = |s : &mut FakeSystem|
        {
            if erase_table && s.is_file(".ruler/current_file_states") { s.remove_file(".ruler/current_file_states").unwrap(); }
            let r = build(s.clone(), &mut EmptyPrinter::new(), BuildParams::from_all(".ruler".to_string(), vec!["build.rules".to_string()], None, None));
            verdicts.push(match r { Ok(()) => "ok".to_string(), Err(e) => format!("{}", e) });
            s.time_passes(1_000_000);
        };
        go(&mut sys);
        put(&mut sys, "a", "Y\n"); tick(&mut sys);
        put(&mut sys, "b", "X\n"); tick(&mut sys);
        go(&mut sys);
        put(&mut sys, "a", "X\n"); tick(&mut sys);
        put(&mut sys, "b", "Y\n"); tick(&mut sys);
        go(&mut sys);
        let d = String::from_utf8(read_file(&sys, "d").unwrap_or(vec![])).unwrap_or("?".to_string());
        (d, verdicts)
    };
    let (with_table, v1) = run(false);
    let (without_table, v2) = run(true);
    let mut v = vec![];
    if with_table != "Y\n" || with_table != without_table || v1 != v2
    {
        v.push(Violation { properties : vec!["C18", "C01"], role : "handle_rule_node: the re-hash after a restore trusts the pre-restore table entry (coarse clock)".into(),
            what : format!("history: build; swap sources a<->b; build; swap back; build (one tick per action). Final content of d (= copy of t2, from scratch \"Y\\n\"): {:?} with the file-state table, {:?} with the table erased before every build; verdicts {:?} / {:?}", with_table, without_table, v1, v2) });
    }
    v
}

/*  ---- C11 state files: build() killed at every mutation (and inside every write), then built again ---- */
pub fn run_torn_state_file(which : &str) -> Vec<Violation>
{
    use crate::build::{build, BuildParams};
    use crate::printer::EmptyPrinter;
    use crate::hooksys::HookSystem;
    let rules = "out\n:\nin\n:\nmycat\nin\nout\n:\n";
    let mut v = vec![];
    let params = || BuildParams::from_all(".ruler".to_string(), vec!["build.rules".to_string()], None, None);
    /*  the killed build is either the SECOND one (every state file already exists and is replaced) or the very FIRST
        one (every state file is written for the first time) */
    for (torn, first) in [(0usize, false), (5, false), (0, true), (5, true)].iter()
    {
        for kill_after in 0..40u32
        {
            let mut sys = FakeSystem::new(100);
            write_str_to_file(&mut sys, "build.rules", rules).unwrap();
            sys.time_passes(1_000_000);
            if !*first
            {
                write_str_to_file(&mut sys, "in", "one\n").unwrap();
                sys.time_passes(1_000_000);
                if let Err(e) = build(sys.clone(), &mut EmptyPrinter::new(), params()) { v.push(Violation { properties : vec!["C11"], role : "replay: first build failed".into(), what : format!("{}", e) }); return v; }
                sys.time_passes(1_000_000);
            }
            write_str_to_file(&mut sys, "in", "two\n").unwrap();
            sys.time_passes(1_000_000);
            /*  second build, killed after `kill_after` mutations */
            let hs = HookSystem::new(sys.clone(), ".ruler/cache/");
            { let mut h = hs.hooks.lock().unwrap(); h.freeze_after = Some(kill_after); h.torn_bytes = *torn; }
            let r2 = std::panic::catch_unwind(std::panic::AssertUnwindSafe(|| build(hs.clone(), &mut EmptyPrinter::new(), params())));
            let (died, calls) = { let h = hs.hooks.lock().unwrap(); (h.dead, h.calls.clone()) };
            let _ = r2;
            sys.time_passes(1_000_000);
            /*  the next invocation, on whatever the kill left */
            let r3 = std::panic::catch_unwind(std::panic::AssertUnwindSafe(|| build(sys.clone(), &mut EmptyPrinter::new(), params())));
            let ok = match &r3 { Ok(Ok(())) => read_file(&sys, "out").unwrap_or(vec![]) == b"two\n".to_vec(), _ => false };
            if !ok
            {
                let last = calls.last().cloned().unwrap_or("(nothing)".to_string());
                let msg = match &r3 { Ok(Ok(())) => "succeeds with a wrong target".to_string(), Ok(Err(e)) => format!("ends with: {}", e), Err(_) => "panics".to_string() };
                let file = if msg.contains("current_file_states") { "table" } else if msg.contains("history") { "history" } else { "state" };
                if file == which || which == "any" || file == "state"
                {
                    v.push(Violation { properties : vec!["C11"], role : format!("{} file truncated or half written by a kill makes the next build fail", file),
                        what : format!("{} build killed after {} mutations (last completed: {}; {} bytes of the interrupted write got through); the next build {}", if *first { "first" } else { "second" }, kill_after, last, torn, msg) });
                    return v;
                }
            }
            if !died { break; }
        }
    }
    v
}

/*  ---- C12 (engine M): the real sorter on a concrete rule set written by lib/sort_engine.py ----
    file: one line per rule  "t1 t2|s1 s2", then "goal <name>" or "goal -" */
#[test]
fn sort_case_from_env()
{
    use crate::rule::Rule;
    use crate::sort::{topological_sort, topological_sort_all};
    let path = match std::env::var("VERIF_SORT_CASE_TXT") { Ok(p) => p, Err(_) => return };
    let text = std::fs::read_to_string(path).unwrap();
    let mut rules = vec![];
    let mut goal : Option<String> = None;
    for line in text.lines()
    {
        if let Some(g) = line.strip_prefix("goal ") { if g.trim() != "-" { goal = Some(g.trim().to_string()); } continue; }
        let mut parts = line.split('|');
        let t : Vec<String> = parts.next().unwrap_or("").split_whitespace().map(|x| x.to_string()).collect();
        let s : Vec<String> = parts.next().unwrap_or("").split_whitespace().map(|x| x.to_string()).collect();
        if !t.is_empty() { rules.push(Rule::new(t, s, vec!["x".to_string()])); }
    }
    let fwd = rules.clone();
    let mut rev = rules.clone();
    rev.reverse();
    let run = |r : Vec<Rule>| match &goal { Some(g) => topological_sort(r, g), None => topological_sort_all(r) };
    let a = std::panic::catch_unwind(std::panic::AssertUnwindSafe(|| run(fwd)));
    let b = std::panic::catch_unwind(std::panic::AssertUnwindSafe(|| run(rev)));
    let q = |x : &String| format!("\"{}\"", x);
    let show = |r : &std::thread::Result<Result<crate::sort::NodePack, crate::sort::TopologicalSortError>>| match r
    {
        Err(_) => "{\"panic\":true}".to_string(),
        Ok(Err(e)) =>
        {
            use crate::sort::TopologicalSortError::*;
            match e
            {
                TargetMissing(t) => format!("{{\"err\":\"TargetMissing\",\"names\":[{}]}}", q(t)),
                SelfDependentRule(t) => format!("{{\"err\":\"SelfDependentRule\",\"names\":[{}]}}", q(t)),
                CircularDependence(c) => format!("{{\"err\":\"CircularDependence\",\"names\":[{}]}}", c.iter().map(q).collect::<Vec<_>>().join(",")),
                TargetInMultipleRules(t) => format!("{{\"err\":\"TargetInMultipleRules\",\"names\":[{}]}}", q(t)),
            }
        },
        Ok(Ok(p)) =>
        {
            let nodes : Vec<String> = p.nodes.iter().map(|n| format!("{{\"targets\":[{}],\"src\":[{}]}}",
                n.targets.iter().map(q).collect::<Vec<_>>().join(","),
                n.source_indices.iter().map(|s| match s { crate::sort::SourceIndex::Leaf(i) => format!("[\"L\",{}]", i), crate::sort::SourceIndex::Pair(i, k) => format!("[\"P\",{},{}]", i, k) }).collect::<Vec<_>>().join(","))).collect();
            format!("{{\"ok\":{{\"leaves\":[{}],\"nodes\":[{}]}}}}", p.leaves.iter().map(q).collect::<Vec<_>>().join(","), nodes.join(","))
        },
    };
    println!("SORT-RESULT {{\"fwd\":{},\"rev\":{}}}", show(&a), show(&b));
}

fn parse_script(path : &str) -> (String, Vec<u8>)
{
    let txt = std::fs::read_to_string(format!("{}.txt", path)).expect("replay script .txt");
    let mut harness = String::new();
    let mut raw = vec![];
    for line in txt.lines()
    {
        if let Some(h) = line.strip_prefix("harness=") { harness = h.trim().to_string(); }
        if let Some(r) = line.strip_prefix("raw=")
        {
            raw = r.split(',').filter(|s| !s.trim().is_empty()).map(|s| s.trim().parse::<u8>().unwrap()).collect();
        }
    }
    (harness, raw)
}

pub fn run_harness_natively(harness : &str, bytes : &[u8]) -> (Vec<Violation>, bool)
{
    let mut raw = Raw { bytes : [0u8; NRAW], pos : 0 };
    for (i, b) in bytes.iter().enumerate().take(NRAW) { raw.bytes[i] = *b; }
    unsafe { crate::ASSUME_FAILED = false; }
    let n = if harness.ends_with("_2t") { 2 } else { 1 };
    let v = if harness.starts_with("step_resolve_single_target")
    {
        let mut pre = prestate::decode(&mut raw, 1, Clock::Distinct, false);
        let foreign = raw.flag();
        if foreign
        {
            /*  a remembered hash no content has: natively, "no cache entry for it" */
            pre.cache[pre.remembered[0] as usize].present = false;
            if pre.ws[0].present && pre.ws[0].content == pre.remembered[0] { pre.remembered[0] = (pre.remembered[0] + 1) % 5; pre.cache[pre.remembered[0] as usize].present = false; }
        }
        pre.has_history = true;
        pre.out[0] = pre.remembered[0];
        run_rule_step(&pre, [false, false], false, true)
    }
    else if harness.starts_with("step_resolve_phase") || harness.starts_with("step_rule")
    {
        let pre = prestate::decode(&mut raw, n, Clock::Distinct, true);
        run_rule_step(&pre, [false, false], false, true)
    }
    else if harness.starts_with("step_tail")
    {
        let mut pre = prestate::decode(&mut raw, n, Clock::Distinct, false);
        /*  the tail runs when every target holds the remembered content */
        pre.has_history = true;
        for i in 0..n { pre.remembered[i] = pre.ws[i].content; pre.out[i] = pre.ws[i].content; }
        run_rule_step(&pre, [false, false], false, true)
    }
    else if harness.starts_with("step_rebuild_core") || harness.starts_with("step_rebuild_phase")
    {
        let mut pre = prestate::decode(&mut raw, n, Clock::Distinct, false);
        let fail = raw.flag();
        let spawn = raw.flag();
        let o0 = raw.flag();
        let o1 = raw.flag();
        let first_line_fails = raw.flag();
        /*  rebuild happens when nothing is remembered or a target is irrecoverable:
            drop the history entry so that the public function takes the rebuild path */
        pre.has_history = false;
        unsafe { FIRST_LINE_FAILS = first_line_fails && !fail && !spawn; }
        let v = run_rule_step(&pre, [o0, o1 && n == 2], fail || spawn || first_line_fails, true);
        unsafe { FIRST_LINE_FAILS = false; }
        v
    }
    else if harness.starts_with("step_clean")
    {
        let pre = prestate::decode(&mut raw, n, Clock::Distinct, false);
        run_clean_step(&pre)
    }
    else if harness.starts_with("clean_then_build")
    {
        let pre = prestate::decode(&mut raw, n, Clock::Distinct, true);
        run_clean_then_build(&pre)
    }
    else if harness.starts_with("interf_resolve")
    {
        let pre = prestate::decode(&mut raw, n, Clock::Distinct, true);
        /*  after the raw vector come the environment's choices, in the order SymSystem drew them:
            go(1 byte) [k(8 bytes LE) add(1) [mtime(1) exec(1) inode(1)]] per interference point */
        let rest : Vec<u8> = bytes.iter().skip(NRAW).cloned().collect();
        let mut peer = vec![];
        let mut i = 0;
        let mut acted = 0;
        while i < rest.len() && acted < 2
        {
            let go = rest[i] != 0; i += 1;
            if !go { peer.push(crate::hooksys::Peer::Nothing); continue; }
            if i + 9 > rest.len() { break; }
            let k = rest[i] as usize; i += 8;
            let add = rest[i] != 0; i += 1;
            let name = format!("{}/{}", CACHE, hash_content(k as u8).human_readable());
            if add
            {
                if i + 3 > rest.len() { break; }
                let (m, e) = (rest[i], rest[i + 1] != 0); i += 3;
                peer.push(crate::hooksys::Peer::Add { name, bytes : content_bytes(k as u8), mtime_s : m, exec : e });
            }
            else
            {
                peer.push(crate::hooksys::Peer::Remove { name });
            }
            acted += 1;
        }
        run_rule_step_hooked(&pre, [false, false], false, true, peer, 2)
    }
    else if harness.starts_with("coarse_rule_norebuild")
    {
        /*  the step counterexample (a cache entry sharing the mtime of the table entry of the target it
            is restored into) is reached by the fixed history below through build() */
        run_coarse_history()
    }
    else if harness.starts_with("torn_rule_history")
    {
        run_torn_state_file("history")
    }
    else if harness.starts_with("torn_file_state_table")
    {
        run_torn_state_file("table")
    }
    else if harness.starts_with("unit_history_insert")
    {
        run_history_insert_case(bytes)
    }
    else if harness.starts_with("init_any_partial_directory")
    {
        run_init_case(bytes)
    }
    else if harness.starts_with("file_chunks")
    {
        run_file_chunks_case(bytes)
    }
    else if harness.starts_with("glue_handle_rule_node")
    {
        /*  n(8) r0 r1 resolve_err rebuild_err tail_err: realise the resolutions as a pre-state of the public function */
        let nt = if bytes.get(0).cloned().unwrap_or(1) == 2 { 2 } else { 1 };
        let r = [bytes.get(8).cloned().unwrap_or(0) % 4, bytes.get(9).cloned().unwrap_or(0) % 4];
        let rebuild_err = bytes.get(11).cloned().unwrap_or(0) != 0;
        let mut raw0 = Raw { bytes : [0u8; NRAW], pos : 0 };
        let mut pre = prestate::decode(&mut raw0, nt, Clock::Distinct, true);
        pre.has_history = true;
        pre.remembered = [1, 2];
        pre.out = [1, 2];
        pre.fresh = 6; pre.fresh2 = 7;
        for k in 0..5 { pre.cache[k].present = false; pre.cache[k].mtime = k as u8; }
        for i in 0..nt
        {
            pre.table[i].known = false;
            match r[i]
            {
                0 => { pre.ws[i].present = true; pre.ws[i].content = pre.remembered[i]; pre.ws[i].mtime = 5; },
                1 | 2 => { pre.ws[i].present = false; pre.cache[pre.remembered[i] as usize].present = true; },
                _ => { pre.ws[i].present = false; },
            }
        }
        pre.ws[2].present = false;
        run_rule_step(&pre, [false, false], rebuild_err, true)
    }
    else if harness.starts_with("rule_rebuild_path")
    {
        let mut pre = prestate::decode(&mut raw, n, Clock::Distinct, false);
        let needs = [bytes.get(NRAW).cloned().unwrap_or(1) != 0, bytes.get(NRAW + 1).cloned().unwrap_or(1) != 0];
        for i in 0..n
        {
            if needs[i] || !pre.has_history
            {
                pre.ws[i].present = false;
                pre.cache[pre.remembered[i] as usize].present = false;
            }
        }
        if !(0..n).any(|i| !pre.ws[i].present) { pre.ws[0].present = false; pre.cache[pre.remembered[0] as usize].present = false; }
        run_rule_step(&pre, [false, false], false, false)
    }
    else if harness.starts_with("step_rebuild_node")
    {
        let mut pre = prestate::decode(&mut raw, n, Clock::Distinct, false);
        /*  make the public function take the rebuild path with the history entry as decoded */
        for i in 0..n
        {
            pre.ws[i].present = false;
            pre.cache[pre.remembered[i] as usize].present = false;
        }
        run_rule_step(&pre, [false, false], false, false)
    }
    else if harness.starts_with("ser_") || harness.starts_with("canon_") || harness.starts_with("identity_")
    {
        run_identity_case(harness, bytes)
    }
    else if harness.starts_with("sort_dag")
    {
        /*  harness name: sort_dag_<n>[_s<ns>][_two_targets], e.g. sort_dag_3_s2 */
        let fixed_n = harness.trim_start_matches("sort_dag_").chars().next().and_then(|c| c.to_digit(10)).map(|d| d as usize);
        let fixed_ns = harness.find("_s").and_then(|i| harness[i + 2..].chars().next()).and_then(|c| c.to_digit(10)).map(|d| d as usize);
        run_sort_case(bytes, harness.contains("two_targets"), fixed_n, fixed_ns, harness.contains("_ft"))
    }
    else if harness.starts_with("step_leaf")
    {
        let pre = prestate::decode(&mut raw, 1, Clock::Distinct, false);
        run_leaf_step(&pre)
    }
    else
    {
        vec![]
    };
    (v, unsafe { !crate::ASSUME_FAILED })
}

fn json_escape(s : &str) -> String
{
    s.replace('\\', "\\\\").replace('"', "\\\"").replace('\n', "\\n")
}

#[test]
fn replay_from_env()
{
    let path = match std::env::var("VERIF_REPLAY") { Ok(p) => p, Err(_) => return };
    let (harness, bytes) = parse_script(&path);
    let (v, assumption_ok) = run_harness_natively(&harness, &bytes);
    let items : Vec<String> = v.iter().map(|x| format!("{{\"properties\":[{}],\"role\":\"{}\",\"what\":\"{}\"}}",
        x.properties.iter().map(|p| format!("\"{}\"", p)).collect::<Vec<_>>().join(","), json_escape(&x.role), json_escape(&x.what))).collect();
    println!("REPLAY-RESULT {{\"harness\":\"{}\",\"assumption_ok\":{},\"violated\":[{}]}}", harness, assumption_ok, items.join(","));
}
