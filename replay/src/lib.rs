//! Native replay crate: the SAME generated copy of ruler's sources as the Kani
//! crate (lib/gen.py), but linked against the real rust-crypto, real
//! num-bigint base-62 and real `format!`, and built by `cargo test` so that
//! ruler's own FakeSystem (cfg(test)) is available.  It re-runs solver
//! counterexamples against the real functions and evaluates the properties
//! natively; only what reproduces here is reported as a VIOLATION.
#![allow(dead_code, unused_imports, unused_variables, unused_mut, static_mut_refs)]

extern crate toml;
extern crate serde;
extern crate execute;

#[path = "../../kani/src/vstd.rs"]
pub mod vstd;

pub static mut ASSUME_FAILED : bool = false;
pub fn vassume(c : bool)
{
    if !c
    {
        unsafe { ASSUME_FAILED = true; }
    }
}
#[path = "../../shared/prestate.rs"]
pub mod prestate;
#[path = "../../shared/sortcase.rs"]
pub mod sortcase;

#[path = "../gen/blob.rs"] pub mod blob;
#[path = "../gen/bundle.rs"] pub mod bundle;
#[path = "../gen/build.rs"] pub mod build;
#[path = "../gen/cache.rs"] pub mod cache;
#[path = "../gen/directory.rs"] pub mod directory;
#[path = "../gen/current.rs"] pub mod current;
#[path = "../gen/history.rs"] pub mod history;
#[path = "../gen/packet.rs"] pub mod packet;
#[path = "../gen/printer.rs"] pub mod printer;
#[path = "../gen/rule.rs"] pub mod rule;
#[path = "../gen/sort.rs"] pub mod sort;
#[path = "../gen/system/mod.rs"] pub mod system;
#[path = "../gen/ticket.rs"] pub mod ticket;
#[path = "../gen/work.rs"] pub mod work;
#[path = "../../kani/src/downloader.rs"]
pub mod downloader;

#[cfg(test)]
pub mod hooksys;
#[cfg(test)]
pub mod replay;
#[cfg(test)]
pub mod scenarios;
#[cfg(test)]
pub mod protoplan;
