// hand-written end-to-end scenarios for known findings live here
