//! Native confirmation of a counterexample of the protocol engine (lib/proto_engine.py):
//! the plan of the counterexample is written as a rules file, its leaves and commands are
//! materialised on ruler's FakeSystem, and the REAL build() (threads, channels, the real
//! sorter, work.rs, cache, history) is run on it -- under the baton scheduler of
//! kani/src/vstd.rs (sched) with several seeded policies, because a protocol defect may
//! only show on some interleavings.  What is checked natively is stated in terms of files,
//! the command log, the printer and build()'s result only.
//!
//!   VERIF_PROTO_CASE_TXT=<file> cargo test proto_case_from_env -- --nocapture
//!
//! file:   leaves <n>
//!         rule <ntargets> <src>...        src = L<j> | P<i>.<s>
//!         missing <j>...                  leaves that do not exist
//!         failing <k>...                  rules whose command fails
//!         policies <n>                    number of scheduler policies to try
//! output: PROTO-RESULT {"violations":[{"property":..,"what":..,"policy":..}], "runs":n}

use crate::system::{System, fake::FakeSystem};
use crate::system::util::{read_file, write_str_to_file};
use crate::build::{build, BuildParams, BuildError};
use crate::printer::Printer;
use crate::vstd::sched;
use termcolor::Color;

#[derive(Clone, Debug)]
pub enum Src { L(usize), P(usize, usize) }

#[derive(Clone, Debug)]
pub struct PlanCase
{
    pub nleaves : usize,
    pub rules : Vec<(usize, Vec<Src>)>,
    pub missing : Vec<usize>,
    pub failing : Vec<usize>,
    pub policies : u64,
    pub clean : bool,
    pub scope : bool,
}

pub struct RecPrinter
{
    pub banners : Vec<(String, String)>,
    pub errors : usize,
}

impl Printer for RecPrinter
{
    fn print_single_banner_line(&mut self, banner_text : &str, _c : Color, path : &str)
    {
        self.banners.push((banner_text.trim().to_string(), path.to_string()));
    }
    fn print(&mut self, _text : &str) {}
    fn error(&mut self, _text : &str) { self.errors += 1; }
}

pub fn parse_case(text : &str) -> PlanCase
{
    { let mut t = match NAMES.lock() { Ok(g) => g, Err(p) => p.into_inner() }; t.clear(); }
    let mut c = PlanCase { nleaves : 0, rules : vec![], missing : vec![], failing : vec![], policies : 8, clean : false, scope : false };
    for line in text.lines()
    {
        let w : Vec<&str> = line.split_whitespace().collect();
        if w.is_empty() { continue; }
        match w[0]
        {
            "leaves" => c.nleaves = w[1].parse().unwrap(),
            "rule" =>
            {
                let nt : usize = w[1].parse().unwrap();
                let mut srcs = vec![];
                for s in &w[2..]
                {
                    if let Some(j) = s.strip_prefix("L") { srcs.push(Src::L(j.parse().unwrap())); }
                    else if let Some(p) = s.strip_prefix("P")
                    {
                        let mut it = p.split('.');
                        srcs.push(Src::P(it.next().unwrap().parse().unwrap(), it.next().unwrap().parse().unwrap()));
                    }
                }
                c.rules.push((nt, srcs));
            },
            "missing" => c.missing = w[1..].iter().map(|x| x.parse().unwrap()).collect(),
            "failing" => c.failing = w[1..].iter().map(|x| x.parse().unwrap()).collect(),
            "policies" => c.policies = w[1].parse().unwrap(),
            "program" => c.clean = w[1] == "clean",
            "scope" => c.scope = true,
            "name" => { let mut t = match NAMES.lock() { Ok(g) => g, Err(p) => p.into_inner() }; t.push((w[1].to_string(), w[2].to_string())); },
            _ => {},
        }
    }
    c
}

/*  file names: by default leaf<j> / t<k>_<s>; a case may rename them ("name L0 a_leaf0", "name T1.0 b_t1_0") so that
    the byte order of the names -- which decides the order of a rule's sources and targets -- is the one the
    counterexample's plan has */
static NAMES : std::sync::Mutex<Vec<(String, String)>> = std::sync::Mutex::new(Vec::new());
fn named(key : &str, default : String) -> String
{
    let t = match NAMES.lock() { Ok(g) => g, Err(p) => p.into_inner() };
    for (k, v) in t.iter() { if k == key { return v.clone(); } }
    default
}
fn leaf(j : usize) -> String { named(&format!("L{}", j), format!("leaf{}", j)) }
fn target(k : usize, s : usize) -> String { named(&format!("T{}.{}", k, s), format!("t{}_{}", k, s)) }
fn konst(k : usize, s : usize) -> String { format!("c{}_{}", k, s) }
fn src_name(x : &Src) -> String { match x { Src::L(j) => leaf(*j), Src::P(i, s) => target(*i, *s) } }

/*  target s of a rule is made from the rule's sources number s, s+nt, s+2nt, ... and a constant
    of its own: the targets of one rule change independently, and no two targets are equal */
fn assigned(c : &PlanCase, k : usize, s : usize) -> Vec<Src>
{
    let (nt, srcs) = &c.rules[k];
    srcs.iter().enumerate().filter(|(i, _)| i % nt == s).map(|(_, x)| x.clone()).collect()
}

fn command_lines(c : &PlanCase, k : usize, fails : bool) -> Vec<String>
{
    let mut lines = vec![];
    for s in 0..c.rules[k].0
    {
        let mut l = "mycat".to_string();
        for x in assigned(c, k, s) { l.push(' '); l.push_str(&src_name(&x)); }
        l.push(' '); l.push_str(&konst(k, s));
        l.push(' '); l.push_str(&target(k, s));
        lines.push(l);
    }
    if fails { lines.push("error".to_string()); }
    lines
}

fn rules_text(c : &PlanCase, failing : &Vec<usize>) -> String
{
    /*  written in REVERSE plan order: the sorter has to find the order */
    let mut t = String::new();
    for k in (0..c.rules.len()).rev()
    {
        for s in 0..c.rules[k].0 { t.push_str(&target(k, s)); t.push('\n'); }
        t.push_str(":\n");
        for x in &c.rules[k].1 { t.push_str(&src_name(x)); t.push('\n'); }
        t.push_str(":\n");
        /*  (in a rules file the lines of a command section are WORDS; a line holding ";" separates script lines) */
        t.push_str(&command_lines(c, k, failing.contains(&k)).join("\n;\n"));
        t.push_str("\n:\n\n");
    }
    t
}

/*  what running the commands from scratch, in dependency order, gives (None: cannot be made) */
fn expected(c : &PlanCase, leaf_text : &Vec<Option<String>>, failing : &Vec<usize>) -> (Vec<Vec<Option<String>>>, Vec<bool>)
{
    let mut out : Vec<Vec<Option<String>>> = vec![];
    let mut ran_ok : Vec<bool> = vec![];
    for k in 0..c.rules.len()
    {
        let (nt, srcs) = &c.rules[k];
        let all_there = srcs.iter().all(|x| match x { Src::L(j) => leaf_text[*j].is_some(), Src::P(i, _s) => ran_ok[*i] });
        if !all_there || failing.contains(&k)
        {
            out.push(vec![None; *nt]);
            ran_ok.push(false);
            continue;
        }
        let mut row = vec![];
        for s in 0..*nt
        {
            let mut text = String::new();
            for x in assigned(c, k, s)
            {
                match x { Src::L(j) => text.push_str(leaf_text[j].as_ref().unwrap()), Src::P(i, s2) => text.push_str(out[i][s2].as_ref().unwrap()) }
            }
            text.push_str(&format!("{}\n", konst(k, s)));
            row.push(Some(text));
        }
        out.push(row);
        ran_ok.push(true);
    }
    (out, ran_ok)
}

pub struct V { pub property : &'static str, pub what : String }

fn params() -> BuildParams { BuildParams::from_all(".ruler".to_string(), vec!["build.rules".to_string()], None, None) }

/*  one build() under scheduler policy `policy`, judged against the from-scratch model */
fn one_build(c : &PlanCase, sys : &mut FakeSystem, leaf_text : &Vec<Option<String>>, failing : &Vec<usize>, policy : u64, step : &str, expect_no_commands : bool, v : &mut Vec<V>)
{
    let log_before = sys.get_command_log().len();
    let snap = |sys : &FakeSystem, p : &str| -> Option<(Vec<u8>, u64)>
    {
        match (read_file(sys, p), sys.get_modified(p))
        {
            (Ok(b), Ok(t)) => Some((b, t.duration_since(std::time::SystemTime::UNIX_EPOCH).map(|d| d.as_micros() as u64).unwrap_or(0))),
            _ => None,
        }
    };
    let mut before : Vec<Vec<Option<(Vec<u8>, u64)>>> = vec![];
    for k in 0..c.rules.len() { before.push((0..c.rules[k].0).map(|s| snap(sys, &target(k, s))).collect()); }
    let mut printer = RecPrinter { banners : vec![], errors : 0 };
    sched::start(policy);
    let r = std::panic::catch_unwind(std::panic::AssertUnwindSafe(|| build(sys.clone(), &mut printer, params())));
    let (deadlock, _switches) = sched::stop();
    sys.time_passes(1_000_000);
    let (want, ran_ok) = expected(c, leaf_text, failing);
    let nmissing_used = (0..c.nleaves).filter(|j| leaf_text[*j].is_none() && c.rules.iter().any(|(_, s)| s.iter().any(|x| matches!(x, Src::L(i) if i == j)))).count();
    /*  a failing rule counts only if it gets to run */
    let nfail_run = failing.iter().filter(|k| c.rules[**k].1.iter().all(|x| match x { Src::L(j) => leaf_text[*j].is_some(), Src::P(i, _) => ran_ok[*i] })).count();
    let nfailed = nmissing_used + nfail_run;
    match r
    {
        Err(p) =>
        {
            let msg = if let Some(s) = p.downcast_ref::<String>() { s.clone() } else if let Some(s) = p.downcast_ref::<&str>() { s.to_string() } else { "?".to_string() };
            v.push(V { property : "C05", what : format!("{}: build() {} ({})", step, if deadlock { "deadlocks" } else { "panics" }, msg) });
            return;
        },
        Ok(Ok(())) =>
        {
            if nfailed != 0 { v.push(V { property : "C04", what : format!("{}: build() reports success although {} rule(s)/leaf(s) failed", step, nfailed) }); }
        },
        Ok(Err(BuildError::WorkErrors(errs))) =>
        {
            if nfailed == 0 { v.push(V { property : "C04", what : format!("{}: build() reports {} error(s) although nothing failed: {}", step, errs.len(), errs.iter().map(|e| format!("{}", e)).collect::<Vec<_>>().join(" | ")) }); }
            else if errs.len() != nfailed { v.push(V { property : "C04", what : format!("{}: {} error(s) reported for {} failed rule(s)/missing leaf(s)", step, errs.len(), nfailed) }); }
        },
        Ok(Err(e)) =>
        {
            v.push(V { property : "C05", what : format!("{}: build() ends with an internal error: {}", step, e) });
            return;
        },
    }
    let log : Vec<String> = sys.get_command_log()[log_before..].to_vec();
    for k in 0..c.rules.len()
    {
        let nt = c.rules[k].0;
        let mine = command_lines(c, k, failing.contains(&k)).join("; ");
        let runs = log.iter().filter(|l| **l == mine).count();
        if runs > 1 { v.push(V { property : "C02", what : format!("{}: the command of rule {} ran {} times in one build", step, k, runs) }); }
        let should_run = c.rules[k].1.iter().all(|x| match x { Src::L(j) => leaf_text[*j].is_some(), Src::P(i, _) => ran_ok[*i] });
        if !should_run && runs > 0 { v.push(V { property : "C04", what : format!("{}: the command of rule {} ran although a producer of its sources failed ({})", step, k, mine) }); }
        if expect_no_commands && runs > 0 { v.push(V { property : "C02", what : format!("{}: the command of rule {} ran although nothing had changed", step, k) }); }
        for s in 0..nt
        {
            let have = read_file(sys, &target(k, s)).ok().map(|b| String::from_utf8_lossy(&b).to_string());
            if ran_ok[k]
            {
                if have != want[k][s]
                {
                    v.push(V { property : "C01", what : format!("{}: target {} holds {:?}, from scratch it would hold {:?}", step, target(k, s), have, want[k][s]) });
                }
                let b : Vec<&(String, String)> = printer.banners.iter().filter(|b| b.1 == target(k, s)).collect();
                if b.len() != 1 { v.push(V { property : "C20", what : format!("{}: {} status lines for target {}", step, b.len(), target(k, s)) }); }
                else
                {
                    let built = b[0].0 == "Built";
                    if built != (runs > 0) { v.push(V { property : "C20", what : format!("{}: status '{}' for {} but its command {}", step, b[0].0, target(k, s), if runs > 0 { "ran" } else { "did not run" }) }); }
                    else if !built
                    {
                        /*  no command ran for this rule: the file was either left alone or moved in from the cache */
                        let untouched = before[k][s].is_some() && before[k][s] == snap(sys, &target(k, s));
                        if (b[0].0 == "Up-to-date") != untouched
                        {
                            v.push(V { property : "C20", what : format!("{}: status '{}' for {}, but the file was {}", step, b[0].0, target(k, s), if untouched { "left untouched" } else { "put in place by this build" }) });
                        }
                    }
                }
            }
            else if printer.banners.iter().any(|b| b.1 == target(k, s))
            {
                v.push(V { property : "C20", what : format!("{}: a status line for target {} of a failed or cancelled rule", step, target(k, s)) });
            }
        }
    }
}

/*  C09: goal-restricted build and clean next to a rule that is out of scope: the plan's rules plus one
    unrelated rule (zz_other <- zz_src); goal = the first target of the plan's last rule.  Nothing outside
    the goal's rules may change: sources, rules file, zz_other (content and mtime). */
pub fn run_scope_case(c : &PlanCase) -> (Vec<(V, u64)>, u64)
{
    let mut out : Vec<(V, u64)> = vec![];
    let mut runs = 0u64;
    let goal = target(c.rules.len() - 1, 0);
    let snap = |sys : &FakeSystem, p : &str| -> Option<(Vec<u8>, std::time::SystemTime, bool)>
    {
        match (read_file(sys, p), sys.get_modified(p), sys.is_executable(p))
        {
            (Ok(b), Ok(t), Ok(x)) => Some((b, t, x)),
            _ => None,
        }
    };
    for policy in 0..c.policies.min(4)
    {
        let mut sys = FakeSystem::new(100);
        let mut watched : Vec<String> = vec!["build.rules".to_string(), "zz_src".to_string(), "zz_other".to_string()];
        for j in 0..c.nleaves { write_str_to_file(&mut sys, &leaf(j), &format!("{}-v0\n", leaf(j))).unwrap(); watched.push(leaf(j)); }
        for k in 0..c.rules.len() { for s in 0..c.rules[k].0 { write_str_to_file(&mut sys, &konst(k, s), &format!("{}\n", konst(k, s))).unwrap(); watched.push(konst(k, s)); } }
        write_str_to_file(&mut sys, "zz_src", "other source\n").unwrap();
        let mut rules = rules_text(c, &vec![]);
        rules.push_str("zz_other\n:\nzz_src\n:\nmycat zz_src zz_other\n:\n");
        write_str_to_file(&mut sys, "build.rules", &rules).unwrap();
        sys.time_passes(1_000_000);
        let all = || BuildParams::from_all(".ruler".to_string(), vec!["build.rules".to_string()], None, None);
        let only = |g : &str| BuildParams::from_all(".ruler".to_string(), vec!["build.rules".to_string()], None, Some(g.to_string()));
        let mut pr = RecPrinter { banners : vec![], errors : 0 };
        if build(sys.clone(), &mut pr, all()).is_err() { out.push((V { property : "C09", what : "replay: the first whole build failed".to_string() }, policy)); return (out, runs); }
        sys.time_passes(1_000_000);
        let steps : Vec<&str> = vec!["clean goal", "clean goal again", "build goal", "clean goal", "build goal", "build goal again"];
        for (n, step) in steps.iter().enumerate()
        {
            let before : Vec<_> = watched.iter().map(|p| snap(&sys, p)).collect();
            sched::start(policy);
            let r = std::panic::catch_unwind(std::panic::AssertUnwindSafe(||
                if step.starts_with("clean") { crate::build::clean(sys.clone(), ".ruler", vec!["build.rules".to_string()], Some(goal.clone())) }
                else { let mut pr = RecPrinter { banners : vec![], errors : 0 }; build(sys.clone(), &mut pr, only(&goal)) }));
            sched::stop();
            sys.time_passes(1_000_000);
            runs += 1;
            if r.is_err() { out.push((V { property : "C05", what : format!("step {} ({}): panic", n + 1, step) }, policy)); break; }
            let after : Vec<_> = watched.iter().map(|p| snap(&sys, p)).collect();
            for (i, p) in watched.iter().enumerate()
            {
                if before[i] != after[i]
                {
                    out.push((V { property : "C09", what : format!("step {} ({} = {}): {} is outside the goal's rules but was {}", n + 1, step, goal, p,
                        if after[i].is_none() { "removed" } else { "changed" }) }, policy));
                }
            }
            if !out.is_empty() { break; }
        }
        if !out.is_empty() { break; }
    }
    (out, runs)
}

pub fn run_case(c : &PlanCase) -> (Vec<(V, u64)>, u64)
{
    if c.scope { return run_scope_case(c); }
    let mut out : Vec<(V, u64)> = vec![];
    let mut runs = 0u64;
    for policy in 0..c.policies
    {
        let mut v : Vec<V> = vec![];
        let mut sys = FakeSystem::new(100);
        let mut leaf_text : Vec<Option<String>> = (0..c.nleaves).map(|j| Some(format!("{}-v0\n", leaf(j)))).collect();
        for j in 0..c.nleaves { if !c.missing.contains(&j) { write_str_to_file(&mut sys, &leaf(j), leaf_text[j].as_ref().unwrap()).unwrap(); } else { leaf_text[j] = None; } }
        for k in 0..c.rules.len() { for s in 0..c.rules[k].0 { write_str_to_file(&mut sys, &konst(k, s), &format!("{}\n", konst(k, s))).unwrap(); } }
        write_str_to_file(&mut sys, "build.rules", &rules_text(c, &c.failing)).unwrap();
        sys.time_passes(1_000_000);
        one_build(c, &mut sys, &leaf_text, &c.failing, policy, "first build", false, &mut v);
        runs += 1;
        if c.clean
        {
            /*  clean() on the built workspace, under the same policy: it has to come back, and no target may be left */
            if v.is_empty()
            {
                sched::start(policy);
                let r = std::panic::catch_unwind(std::panic::AssertUnwindSafe(|| crate::build::clean(sys.clone(), ".ruler", vec!["build.rules".to_string()], None)));
                let (deadlock, _) = sched::stop();
                runs += 1;
                match r
                {
                    Err(_) => v.push(V { property : "C05", what : format!("clean() {}", if deadlock { "deadlocks" } else { "panics" }) }),
                    Ok(Err(BuildError::WorkErrors(_))) => {},
                    Ok(Err(e)) => v.push(V { property : "C05", what : format!("clean() ends with an internal error: {}", e) }),
                    Ok(Ok(())) =>
                    {
                        for k in 0..c.rules.len() { for s in 0..c.rules[k].0
                        {
                            if c.missing.is_empty() && sys.is_file(&target(k, s)) { v.push(V { property : "C10", what : format!("after clean() the target {} is still there", target(k, s)) }); }
                        } }
                    },
                }
            }
        }
        else if v.is_empty() && (!c.missing.is_empty() || !c.failing.is_empty())
        {
            /*  repair the causes: the next build has to try again and get everything right */
            for j in 0..c.nleaves { if leaf_text[j].is_none() { leaf_text[j] = Some(format!("{}-v0\n", leaf(j))); write_str_to_file(&mut sys, &leaf(j), leaf_text[j].as_ref().unwrap()).unwrap(); } }
            write_str_to_file(&mut sys, "build.rules", &rules_text(c, &vec![])).unwrap();
            sys.time_passes(1_000_000);
            one_build(c, &mut sys, &leaf_text, &vec![], policy, "build after the causes were repaired", false, &mut v);
            runs += 1;
        }
        if v.is_empty() && !c.clean
        {
            one_build(c, &mut sys, &leaf_text, &vec![], policy, "repeated build, nothing changed", true, &mut v);
            runs += 1;
            for j in 0..c.nleaves
            {
                if !v.is_empty() { break; }
                let old = leaf_text[j].clone();
                leaf_text[j] = Some(format!("{}-v1\n", leaf(j)));
                write_str_to_file(&mut sys, &leaf(j), leaf_text[j].as_ref().unwrap()).unwrap();
                sys.time_passes(1_000_000);
                one_build(c, &mut sys, &leaf_text, &vec![], policy, &format!("build after editing {}", leaf(j)), false, &mut v);
                leaf_text[j] = old;
                write_str_to_file(&mut sys, &leaf(j), leaf_text[j].as_ref().unwrap()).unwrap();
                sys.time_passes(1_000_000);
                if v.is_empty() { one_build(c, &mut sys, &leaf_text, &vec![], policy, &format!("build after reverting {}", leaf(j)), false, &mut v); }
                runs += 2;
            }
        }
        if v.is_empty() && !c.clean && c.missing.is_empty() && c.failing.is_empty()
        {
            /*  one source goes back to an earlier version while another gets new content, in the same build:
                a producer finds its old outputs in its history while its dependent has to run its command */
            let mut fresh = 2;
            for i in 0..c.nleaves { for j in 0..c.nleaves
            {
                if i == j || !v.is_empty() { continue; }
                let old_i = leaf_text[i].clone();
                leaf_text[i] = Some(format!("{}-v{}\n", leaf(i), fresh)); fresh += 1;
                write_str_to_file(&mut sys, &leaf(i), leaf_text[i].as_ref().unwrap()).unwrap();
                sys.time_passes(1_000_000);
                one_build(c, &mut sys, &leaf_text, &vec![], policy, &format!("build after editing {}", leaf(i)), false, &mut v);
                leaf_text[i] = old_i;
                write_str_to_file(&mut sys, &leaf(i), leaf_text[i].as_ref().unwrap()).unwrap();
                leaf_text[j] = Some(format!("{}-v{}\n", leaf(j), fresh)); fresh += 1;
                write_str_to_file(&mut sys, &leaf(j), leaf_text[j].as_ref().unwrap()).unwrap();
                sys.time_passes(1_000_000);
                if v.is_empty() { one_build(c, &mut sys, &leaf_text, &vec![], policy, &format!("build after reverting {} and editing {}", leaf(i), leaf(j)), false, &mut v); }
                runs += 2;
            } }
        }
        if v.is_empty() && !c.clean && c.missing.is_empty() && c.failing.is_empty() && policy < 2
        {
            /*  a plain source file becomes the target of a new rule that makes the very same bytes: the rules that use it
                are unchanged and their sources are byte-identical, so none of their commands may run (C02) */
            for j in 0..c.nleaves
            {
                if !v.is_empty() { break; }
                let users : Vec<usize> = (0..c.rules.len()).filter(|k| c.rules[*k].1.iter().any(|x| matches!(x, Src::L(i) if *i == j))).collect();
                if users.is_empty() { continue; }
                let gen_src = format!("zz_gen_src{}", j);
                write_str_to_file(&mut sys, &gen_src, leaf_text[j].as_ref().unwrap()).unwrap();
                let mut rules = rules_text(c, &vec![]);
                rules.push_str(&format!("{}\n:\n{}\n:\nmycat {} {}\n:\n", leaf(j), gen_src, gen_src, leaf(j)));
                write_str_to_file(&mut sys, "build.rules", &rules).unwrap();
                sys.time_passes(1_000_000);
                let log_before = sys.get_command_log().len();
                let mut printer = RecPrinter { banners : vec![], errors : 0 };
                sched::start(policy);
                let r = std::panic::catch_unwind(std::panic::AssertUnwindSafe(|| build(sys.clone(), &mut printer, params())));
                sched::stop();
                sys.time_passes(1_000_000);
                runs += 1;
                match r
                {
                    Ok(Ok(())) =>
                    {
                        let log : Vec<String> = sys.get_command_log()[log_before..].to_vec();
                        for k in users
                        {
                            let mine = command_lines(c, k, false).join("; ");
                            if log.iter().any(|l| *l == mine)
                            {
                                v.push(V { property : "C02", what : format!("after {} became the target of a new rule producing the same bytes, the command of the unchanged rule {} ran again", leaf(j), k) });
                            }
                        }
                    },
                    Ok(Err(e)) => v.push(V { property : "C05", what : format!("build after {} became a rule's target: {}", leaf(j), e) }),
                    Err(_) => v.push(V { property : "C05", what : format!("build after {} became a rule's target panics", leaf(j)) }),
                }
                /*  back to the plain file */
                write_str_to_file(&mut sys, "build.rules", &rules_text(c, &vec![])).unwrap();
                sys.time_passes(1_000_000);
                if v.is_empty() { one_build(c, &mut sys, &leaf_text, &vec![], policy, &format!("build after {} became a plain file again", leaf(j)), false, &mut v); runs += 1; }
            }
        }
        for x in v { out.push((x, policy)); }
        if !out.is_empty() { break; }
    }
    (out, runs)
}

fn json_escape(s : &str) -> String
{
    s.replace("\\", "\\\\").replace("\"", "\\\"").replace("\n", "\\n")
}

#[test]
fn proto_case_from_env()
{
    let path = match std::env::var("VERIF_PROTO_CASE_TXT") { Ok(p) => p, Err(_) => return };
    let text = std::fs::read_to_string(path).unwrap();
    /*  the panics of worker threads and of build() are expected outcomes here: keep the output readable */
    std::panic::set_hook(Box::new(|_| {}));
    /*  several cases may be given, separated by lines "---": one PROTO-RESULT line each, in order */
    for part in text.split("\n---\n")
    {
        if part.trim().is_empty() { continue; }
        let c = parse_case(part);
        let (v, runs) = run_case(&c);
        let items : Vec<String> = v.iter().map(|(x, p)| format!("{{\"property\":\"{}\",\"what\":\"{}\",\"policy\":{}}}", x.property, json_escape(&x.what), p)).collect();
        println!("PROTO-RESULT {{\"violations\":[{}],\"runs\":{}}}", items.join(","), runs);
    }
}

/*  ---- C14 (engine M/parser): the real parser on concrete text written by lib/parse_engine.py ----
    file: blocks separated by a line "---"; first line of a block is "P" (a whole rules file follows) or
    "B" (the lines of one section follow); line text is given escaped: \t for tab, \e for an empty line marker. */
#[test]
fn parse_case_from_env()
{
    use crate::rule::{parse, ParseError as RPE};
    use crate::bundle::{PathBundle, ParseError as BPE};
    let path = match std::env::var("VERIF_PARSE_CASE_TXT") { Ok(p) => p, Err(_) => return };
    let text = std::fs::read_to_string(path).unwrap();
    std::panic::set_hook(Box::new(|_| {}));
    let q = |x : &String| format!("\"{}\"", json_escape(x));
    let berr = |e : &BPE| match e
    {
        BPE::Empty => "{\"err\":\"Empty\",\"args\":[]}".to_string(),
        BPE::ContainsEmptyLines(v) => format!("{{\"err\":\"ContainsEmptyLines\",\"args\":[{}]}}", v.iter().map(|x| x.to_string()).collect::<Vec<_>>().join(",")),
        BPE::Contradiction(a, b) => format!("{{\"err\":\"Contradiction\",\"args\":[{},{}]}}", a, b),
        BPE::WrongIndent(a) => format!("{{\"err\":\"WrongIndent\",\"args\":[{}]}}", a),
    };
    for block in text.split("\n---\n")
    {
        let mut it = block.split('\n');
        let kind = it.next().unwrap_or("");
        let lines : Vec<String> = it.map(|l| l.replace("\\t", "\t").replace("\\e", "")).collect();
        if kind == "B"
        {
            let refs : Vec<&str> = lines.iter().map(|s| s.as_str()).collect();
            let r = std::panic::catch_unwind(std::panic::AssertUnwindSafe(|| PathBundle::parse_lines(refs).map(|b| b.get_path_strings('/'))));
            match r
            {
                Err(_) => println!("PARSE-RESULT {{\"panic\":true}}"),
                Ok(Ok(p)) => println!("PARSE-RESULT {{\"ok\":[{}]}}", p.iter().map(q).collect::<Vec<_>>().join(",")),
                Ok(Err(e)) => println!("PARSE-RESULT {}", berr(&e)),
            }
        }
        else if kind == "P"
        {
            let content = lines.join("\n");
            let r = std::panic::catch_unwind(std::panic::AssertUnwindSafe(|| parse("the.rules".to_string(), content)));
            match r
            {
                Err(_) => println!("PARSE-RESULT {{\"panic\":true}}"),
                Ok(Ok(rules)) => println!("PARSE-RESULT {{\"ok\":[{}]}}", rules.iter().map(|r| format!("{{\"targets\":[{}],\"sources\":[{}],\"command\":[{}]}}",
                    r.targets.iter().map(q).collect::<Vec<_>>().join(","), r.sources.iter().map(q).collect::<Vec<_>>().join(","), r.command.iter().map(q).collect::<Vec<_>>().join(","))).collect::<Vec<_>>().join(",")),
                Ok(Err(e)) => match e
                {
                    RPE::UnexpectedEmptyLine(f, n) => println!("PARSE-RESULT {{\"err\":\"UnexpectedEmptyLine\",\"file\":{},\"line\":{}}}", q(&f), n),
                    RPE::UnexpectedExtraColon(f, n) => println!("PARSE-RESULT {{\"err\":\"UnexpectedExtraColon\",\"file\":{},\"line\":{}}}", q(&f), n),
                    RPE::UnexpectedEndOfFileMidTargets(f, n) => println!("PARSE-RESULT {{\"err\":\"UnexpectedEndOfFileMidTargets\",\"file\":{},\"line\":{}}}", q(&f), n),
                    RPE::UnexpectedEndOfFileMidSources(f, n) => println!("PARSE-RESULT {{\"err\":\"UnexpectedEndOfFileMidSources\",\"file\":{},\"line\":{}}}", q(&f), n),
                    RPE::UnexpectedEndOfFileMidCommand(f, n) => println!("PARSE-RESULT {{\"err\":\"UnexpectedEndOfFileMidCommand\",\"file\":{},\"line\":{}}}", q(&f), n),
                    RPE::BundleError(f, b) => println!("PARSE-RESULT {{\"err\":\"BundleError\",\"file\":{},\"bundle\":{}}}", q(&f), berr(&b)),
                },
            }
        }
    }
}
