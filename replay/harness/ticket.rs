/*  Native access to the private base-62 kernels for engine M's translator
    validation and counterexample replay (lib/mir_engine.py). */
#[cfg(test)]
mod verif_native
{
    use super::*;

    #[test]
    fn b62_vectors_from_env()
    {
        let path = match std::env::var("VERIF_B62_VECTORS") { Ok(p) => p, Err(_) => return };
        let text = std::fs::read_to_string(path).expect("vector file");
        std::panic::set_hook(Box::new(|_| {}));
        for line in text.lines()
        {
            let nums : Vec<u32> = line[1..].trim().split(',').filter(|s| !s.trim().is_empty()).map(|s| s.trim().parse::<u32>().unwrap()).collect();
            if line.starts_with("E")
            {
                let mut b = [0u8; 32];
                for (i, x) in nums.iter().enumerate().take(32) { b[i] = *x as u8; }
                match std::panic::catch_unwind(|| encode62(&b))
                {
                    Ok(s) => println!("B62 S {}", s),
                    Err(_) => println!("B62 PANIC"),
                }
            }
            else if line.starts_with("D")
            {
                let s : String = nums.iter().map(|c| std::char::from_u32(*c).unwrap()).collect();
                match std::panic::catch_unwind(|| decode62(&s))
                {
                    Ok(Ok(v)) => println!("B62 OK {}", v.iter().map(|b| b.to_string()).collect::<Vec<_>>().join(",")),
                    Ok(Err(FromHumanReadableError::InvalidLength)) => println!("B62 ERR InvalidLength"),
                    Ok(Err(FromHumanReadableError::Overflow)) => println!("B62 ERR Overflow"),
                    Ok(Err(FromHumanReadableError::InvalidCharacter(c))) => println!("B62 ERR InvalidCharacter({})", c as u32),
                    Err(_) => println!("B62 PANIC"),
                }
            }
        }
    }
}
